//! Oracles for the EMF formatter: framing/syntax (C02), reference interpretation (C03),
//! the "malformed" predicate (C08). Written from the property statements and the EMF
//! specification, not from the formatter's code paths.

use super::*;
use std::collections::BTreeMap;
use vh_common::json::{self, Json};

// ------------------------------------------------------------------------------------------
// parsed records

#[derive(Debug, Clone, PartialEq)]
pub enum MemberP {
    Str(String),
    /// canonical distribution: (value lexeme, count lexeme); a scalar is `[(lexeme, "1")]`
    Dist(Vec<(String, String)>),
}

#[derive(Debug, Clone, PartialEq, Eq, PartialOrd, Ord)]
pub struct DirP {
    pub ns: String,
    /// each set sorted, the list of sets sorted
    pub dims: Vec<Vec<String>>,
    /// (name, unit, storage resolution lexeme), sorted
    pub metrics: Vec<(String, Option<String>, Option<String>)>,
}

#[derive(Debug, Clone, PartialEq)]
pub struct RecordP {
    pub timestamp: String,
    pub log_group: Option<String>,
    pub directives: Vec<DirP>,
    pub members: Vec<(String, MemberP)>,
    pub duplicate_member: Option<String>,
}

fn strings_of(j: &Json, what: &'static str) -> Result<Vec<String>, String> {
    j.as_arr()
        .ok_or_else(|| format!("{what} is not an array"))?
        .iter()
        .map(|s| {
            s.as_str()
                .map(|s| s.to_owned())
                .ok_or_else(|| format!("{what} holds a non-string"))
        })
        .collect()
}

/// C02's oracle for a successful format: framing, strict JSON, `_aws` structure.
pub fn parse_output(bytes: &[u8]) -> Result<Vec<RecordP>, String> {
    if bytes.is_empty() {
        return Err("success reported but no bytes written".into());
    }
    if *bytes.last().unwrap() != b'\n' {
        return Err("output does not end with a newline".into());
    }
    let mut out = Vec::new();
    for line in bytes[..bytes.len() - 1].split(|b| *b == b'\n') {
        out.push(parse_record(line)?);
    }
    Ok(out)
}

pub fn parse_record(line: &[u8]) -> Result<RecordP, String> {
    let v = json::parse(line).map_err(|e| {
        format!(
            "line is not valid JSON: {} at byte {} in {:?}",
            e.msg,
            e.pos,
            String::from_utf8_lossy(&line[..line.len().min(400)])
        )
    })?;
    let obj = v.as_obj().ok_or("line is not a JSON object")?;
    let duplicate_member = v.first_duplicate();
    let aws = v.get("_aws").ok_or("no _aws member")?;
    if aws.as_obj().is_none() {
        return Err("_aws is not an object".into());
    }
    let ts = aws
        .get("Timestamp")
        .and_then(|t| t.as_num())
        .ok_or("_aws.Timestamp missing or not a number")?;
    if !json::is_integer_lexeme(ts) {
        return Err(format!("_aws.Timestamp {ts} is not an integer"));
    }
    let log_group = match aws.get("LogGroupName") {
        None => None,
        Some(j) => Some(
            j.as_str()
                .ok_or("LogGroupName is not a string")?
                .to_owned(),
        ),
    };
    let cwm = aws
        .get("CloudWatchMetrics")
        .and_then(|c| c.as_arr())
        .ok_or("_aws.CloudWatchMetrics missing or not an array")?;
    let mut directives = Vec::new();
    for d in cwm {
        if d.as_obj().is_none() {
            return Err("directive is not an object".into());
        }
        let ns = d
            .get("Namespace")
            .and_then(|n| n.as_str())
            .ok_or("directive without Namespace string")?
            .to_owned();
        let mut dims = Vec::new();
        for set in d
            .get("Dimensions")
            .and_then(|x| x.as_arr())
            .ok_or("directive without Dimensions array")?
        {
            let mut s = strings_of(set, "dimension set")?;
            s.sort();
            dims.push(s);
        }
        dims.sort();
        let mut metrics = Vec::new();
        for m in d
            .get("Metrics")
            .and_then(|x| x.as_arr())
            .ok_or("directive without Metrics array")?
        {
            if m.as_obj().is_none() {
                return Err("metric definition is not an object".into());
            }
            let name = m
                .get("Name")
                .and_then(|n| n.as_str())
                .ok_or("metric definition without Name")?
                .to_owned();
            let unit = match m.get("Unit") {
                None => None,
                Some(u) => Some(u.as_str().ok_or("Unit is not a string")?.to_owned()),
            };
            let sr = match m.get("StorageResolution") {
                None => None,
                Some(u) => Some(
                    u.as_num()
                        .ok_or("StorageResolution is not a number")?
                        .to_owned(),
                ),
            };
            metrics.push((name, unit, sr));
        }
        metrics.sort();
        directives.push(DirP { ns, dims, metrics });
    }
    let mut members = Vec::new();
    for (k, val) in obj {
        if k == "_aws" {
            continue;
        }
        let m = match val {
            Json::Str(s) => MemberP::Str(s.clone()),
            Json::Num(n) => MemberP::Dist(vec![(n.clone(), "1".into())]),
            Json::Obj(_) => {
                let values = val
                    .get("Values")
                    .and_then(|x| x.as_arr())
                    .ok_or_else(|| format!("member {k:?}: object without Values array"))?;
                let counts = val
                    .get("Counts")
                    .and_then(|x| x.as_arr())
                    .ok_or_else(|| format!("member {k:?}: object without Counts array"))?;
                if values.len() != counts.len() {
                    return Err(format!(
                        "member {k:?}: {} Values but {} Counts",
                        values.len(),
                        counts.len()
                    ));
                }
                let mut d = Vec::new();
                for (v, c) in values.iter().zip(counts) {
                    let v = v
                        .as_num()
                        .ok_or_else(|| format!("member {k:?}: non-numeric value"))?;
                    let c = c
                        .as_num()
                        .ok_or_else(|| format!("member {k:?}: non-numeric count"))?;
                    d.push((v.to_owned(), c.to_owned()));
                }
                MemberP::Dist(d)
            }
            _ => return Err(format!("member {k:?} has an unexpected JSON type")),
        };
        members.push((k.clone(), m));
    }
    Ok(RecordP {
        timestamp: ts.to_owned(),
        log_group,
        directives,
        members,
        duplicate_member,
    })
}

// ------------------------------------------------------------------------------------------
// reference interpretation (C03)

#[derive(Debug, Clone, Copy, PartialEq)]
pub enum NumE {
    U(u64),
    F(f64),
    /// zero-occurrence pair: any finite value
    AnyFinite,
}

#[derive(Debug, Clone, PartialEq)]
pub enum MemberE {
    Str(String),
    Dist(Vec<(NumE, u64)>),
}

#[derive(Debug, Clone, PartialEq)]
pub struct RecordE {
    /// per-metric dimension set of this record (sorted), empty for the global record
    pub key: Vec<(String, String)>,
    /// the Dimensions every namespace directive of this record must list (canonical)
    pub dimsets: Vec<Vec<String>>,
    /// metric definitions (name, unit, storage resolution must be "1"), sorted
    pub defs: Vec<(String, Option<String>, bool)>,
    pub members: BTreeMap<String, MemberE>,
    pub has_metric_member: bool,
}

#[derive(Debug, Clone, PartialEq)]
pub struct Expected {
    /// None: the entry wrote no timestamp (any integer is accepted)
    pub timestamp_ms: Option<i128>,
    pub records: Vec<RecordE>,
    /// a record holding only the string members may accompany the others
    pub optional_global: Option<RecordE>,
}

fn clamp(v: f64) -> Option<f64> {
    if v.is_nan() {
        None
    } else if v == f64::INFINITY {
        Some(f64::MAX)
    } else if v == f64::NEG_INFINITY {
        Some(-f64::MAX)
    } else {
        Some(v)
    }
}

/// What one observation contributes: None = unusable (NaN).
pub fn expected_item(o: Obs, weight: Option<u64>) -> Option<(NumE, u64)> {
    let w = weight.unwrap_or(1);
    match o {
        Obs::U(v) => Some((NumE::U(v), w)),
        Obs::F(v) => clamp(v).map(|v| (NumE::F(v), w)),
        Obs::R(total, occ) => {
            if occ == 0 {
                if total.is_nan() {
                    // "non-NaN observation" is ambiguous here; callers keep it out of C03's domain
                    Some((NumE::AnyFinite, 0))
                } else {
                    Some((NumE::AnyFinite, 0))
                }
            } else {
                clamp(total / occ as f64).map(|m| (NumE::F(m), occ.saturating_mul(w)))
            }
        }
    }
}

fn canon_sets(sets: &[Vec<String>]) -> Vec<Vec<String>> {
    let mut out: Vec<Vec<String>> = sets
        .iter()
        .map(|s| {
            let mut s = s.clone();
            s.sort();
            s
        })
        .collect();
    out.sort();
    out
}

/// Reference interpretation of a *valid* entry (see `defects`) under `cfg`.
pub fn expected_records(cfg: &CfgD, entry: &EntryD) -> Expected {
    let weight = cfg.mult.weight();
    let mut timestamp_ms = None;
    let mut entry_dims: Option<&Vec<Vec<String>>> = None;
    for op in &entry.ops {
        match op {
            OpD::Timestamp(n) => timestamp_ms = Some(n.div_euclid(1_000_000)),
            OpD::Config(ConfD::EntryDims(d)) => entry_dims = Some(d),
            _ => {}
        }
    }
    let base_sets: Vec<Vec<String>> = match entry_dims {
        None => cfg.default_dims.clone(),
        Some(e) => cfg
            .default_dims
            .iter()
            .flat_map(|d| {
                e.iter().map(move |x| {
                    let mut s = d.clone();
                    s.extend(x.iter().cloned());
                    s
                })
            })
            .collect(),
    };
    let mut strings: Vec<(String, String)> = Vec::new();
    // key -> record
    let mut recs: BTreeMap<Vec<(String, String)>, RecordE> = BTreeMap::new();
    let new_rec = |key: &Vec<(String, String)>| {
        let sets: Vec<Vec<String>> = base_sets
            .iter()
            .map(|s| {
                let mut s = s.clone();
                s.extend(key.iter().map(|(k, _)| k.clone()));
                s
            })
            .collect();
        RecordE {
            key: key.clone(),
            dimsets: canon_sets(&sets),
            defs: Vec::new(),
            members: BTreeMap::new(),
            has_metric_member: false,
        }
    };
    for op in &entry.ops {
        let OpD::Value(name, v) = op else { continue };
        match v {
            ValD::Str(s) => strings.push((name.clone(), s.clone())),
            ValD::Metric {
                obs,
                unit,
                dims,
                flag,
            } => {
                let items: Vec<(NumE, u64)> = obs
                    .iter()
                    .filter_map(|o| expected_item(*o, weight))
                    .collect();
                if items.is_empty() {
                    continue; // no usable observation: appears nowhere
                }
                let key: Vec<(String, String)> = if cfg.allow_ignored {
                    Vec::new()
                } else {
                    let mut k = dims.clone();
                    k.sort();
                    k
                };
                let rec = recs.entry(key.clone()).or_insert_with(|| new_rec(&key));
                rec.members.insert(name.clone(), MemberE::Dist(items));
                rec.has_metric_member = true;
                if *flag != FlagD::NoMetric {
                    rec.defs.push((
                        name.clone(),
                        unit.expected_name().map(|s| s.to_owned()),
                        *flag == FlagD::HighRes,
                    ));
                }
            }
            ValD::Error(_) | ValD::Nothing => {}
        }
    }
    let any_dim_record = recs.keys().any(|k| !k.is_empty());
    let mut optional_global = None;
    if !recs.contains_key(&Vec::new()) {
        if any_dim_record {
            let mut g = new_rec(&Vec::new());
            for (k, v) in &strings {
                g.members.insert(k.clone(), MemberE::Str(v.clone()));
            }
            optional_global = Some(g);
        } else {
            // at least one record is always emitted
            recs.insert(Vec::new(), new_rec(&Vec::new()));
        }
    }
    let mut records: Vec<RecordE> = recs.into_values().collect();
    for r in &mut records {
        for (k, v) in &r.key {
            r.members.insert(k.clone(), MemberE::Str(v.clone()));
        }
        for (k, v) in &strings {
            r.members.insert(k.clone(), MemberE::Str(v.clone()));
        }
        r.defs.sort();
    }
    Expected {
        timestamp_ms,
        records,
        optional_global,
    }
}

fn num_matches(e: NumE, lex: &str) -> bool {
    match e {
        NumE::U(v) => lex == v.to_string(),
        NumE::F(f) => match lex.parse::<f64>() {
            Ok(p) => p == f && p.is_finite(),
            Err(_) => false,
        },
        NumE::AnyFinite => lex.parse::<f64>().map(|p| p.is_finite()).unwrap_or(false),
    }
}

fn dist_matches(exp: &[(NumE, u64)], act: &[(String, String)]) -> bool {
    if exp.len() != act.len() {
        return false;
    }
    let mut used = vec![false; act.len()];
    // exact items first, wildcards last
    let mut order: Vec<usize> = (0..exp.len()).collect();
    order.sort_by_key(|i| matches!(exp[*i].0, NumE::AnyFinite));
    for i in order {
        let (n, c) = exp[i];
        let Some(j) = (0..act.len())
            .find(|&j| !used[j] && act[j].1 == c.to_string() && num_matches(n, &act[j].0))
        else {
            return false;
        };
        used[j] = true;
    }
    true
}

/// The configured extra directives: one with a metric definition and (round 14, `C02l`) one
/// whose list of metric definitions is empty - it still has to carry a `Metrics` member.
fn extra_directives() -> Vec<DirP> {
    vec![
        DirP {
            ns: EXTRA_NS.into(),
            dims: vec![vec![EXTRA_DIM.into()]],
            metrics: vec![(EXTRA_METRIC.into(), Some("Count".into()), Some("1".into()))],
        },
        DirP {
            ns: EXTRA_NS_EMPTY.into(),
            dims: vec![vec![EXTRA_DIM.into()]],
            metrics: vec![],
        },
    ]
}

fn record_matches(cfg: &CfgD, exp: &Expected, e: &RecordE, a: &RecordP) -> Result<(), String> {
    if let Some(ms) = exp.timestamp_ms {
        if a.timestamp != ms.to_string() {
            return Err(format!("Timestamp {} expected {}", a.timestamp, ms));
        }
    }
    if a.log_group != cfg.log_group {
        return Err(format!(
            "LogGroupName {:?} expected {:?}",
            a.log_group, cfg.log_group
        ));
    }
    // directives: one per namespace (+ the configured extra directive)
    let mut dirs = a.directives.clone();
    let mut had_extra = cfg.extra_directive;
    if cfg.extra_directive {
        for extra in extra_directives() {
            match dirs.iter().position(|d| *d == extra) {
                Some(p) => {
                    dirs.remove(p);
                }
                None => had_extra = false,
            }
        }
    }
    if cfg.extra_directive && e.key.is_empty() && !had_extra {
        return Err("the configured extra directive is missing from the record".into());
    }
    let mut expected_dirs: Vec<DirP> = cfg
        .namespaces
        .iter()
        .map(|ns| DirP {
            ns: ns.clone(),
            dims: e.dimsets.clone(),
            metrics: Vec::new(),
        })
        .collect();
    expected_dirs.sort();
    dirs.sort();
    if dirs.len() != expected_dirs.len() {
        return Err(format!(
            "{} directives, expected one per namespace ({})",
            dirs.len(),
            expected_dirs.len()
        ));
    }
    for (d, x) in dirs.iter().zip(&expected_dirs) {
        if d.ns != x.ns {
            return Err(format!("directive namespace {:?} expected {:?}", d.ns, x.ns));
        }
        if d.dims != x.dims {
            return Err(format!(
                "directive for {:?}: Dimensions {:?} expected {:?}",
                d.ns, d.dims, x.dims
            ));
        }
        if d.metrics.len() != e.defs.len() {
            return Err(format!(
                "directive for {:?}: metric definitions {:?} expected {:?}",
                d.ns, d.metrics, e.defs
            ));
        }
        for ((n, u, sr), (en, eu, hires)) in d.metrics.iter().zip(&e.defs) {
            let sr_ok = if *hires {
                sr.as_deref() == Some("1")
            } else {
                matches!(sr.as_deref(), None | Some("60"))
            };
            if n != en || u != eu || !sr_ok {
                return Err(format!(
                    "directive for {:?}: definition ({n:?},{u:?},{sr:?}) expected ({en:?},{eu:?},hires={hires})",
                    d.ns
                ));
            }
        }
    }
    // members
    if a.members.len() != e.members.len() {
        return Err(format!(
            "members {:?} expected {:?}",
            a.members.iter().map(|m| &m.0).collect::<Vec<_>>(),
            e.members.keys().collect::<Vec<_>>()
        ));
    }
    for (name, m) in &a.members {
        match (e.members.get(name), m) {
            (Some(MemberE::Str(x)), MemberP::Str(y)) if x == y => {}
            (Some(MemberE::Dist(x)), MemberP::Dist(y)) if dist_matches(x, y) => {}
            (x, y) => return Err(format!("member {name:?}: got {y:?}, expected {x:?}")),
        }
    }
    Ok(())
}

/// Compare parsed output with the reference as a multiset of records.
pub fn compare(cfg: &CfgD, exp: &Expected, actual: &[RecordP]) -> Result<(), String> {
    let mut remaining: Vec<&RecordP> = actual.iter().collect();
    for e in &exp.records {
        let mut last_err = String::from("no record left");
        let pos = remaining.iter().position(|a| {
            match record_matches(cfg, exp, e, a) {
                Ok(()) => true,
                Err(m) => {
                    last_err = m;
                    false
                }
            }
        });
        match pos {
            Some(p) => {
                remaining.remove(p);
            }
            None => {
                return Err(format!(
                    "no emitted record matches the expected record for dimension set {:?}: {last_err}",
                    e.key
                ));
            }
        }
    }
    for a in remaining {
        // only an additional string-only global record is tolerated
        let ok = match &exp.optional_global {
            Some(g) => record_matches(cfg, exp, g, a).is_ok(),
            None => false,
        };
        if !ok {
            return Err(format!(
                "unexpected extra record with members {:?}",
                a.members.iter().map(|m| &m.0).collect::<Vec<_>>()
            ));
        }
    }
    Ok(())
}

// ------------------------------------------------------------------------------------------
// the "malformed" predicate (C08), from the property statement

#[derive(Debug, Clone, Copy, PartialEq, Eq, PartialOrd, Ord, Hash)]
pub enum Defect {
    DuplicateName,
    MultipleTimestamps,
    EmptyName,
    ReservedName,
    MetricUnderDimensionName,
    MissingDimension,
    DimensionsWithoutSplit,
    EntryDimsEmpty,
    EntryDimsTwice,
    EntryDimsLate,
    /// the value itself reported an error (not a formatter defect, but never accepted)
    ValueError,
}

pub fn defects(cfg: &CfgD, entry: &EntryD) -> Vec<Defect> {
    let mut out = Vec::new();
    let mut timestamps = 0;
    let mut declared: Vec<String> = cfg.default_dims.iter().flatten().cloned().collect();
    let mut entry_dims_seen = 0;
    let mut split = false;
    let mut unroutable = false;
    let mut dimensioned_metric_seen = false;
    // (name, record key or None for "all records" (string))
    let mut written: Vec<(&str, Option<Vec<(String, String)>>)> = Vec::new();
    let mut strings: Vec<&str> = Vec::new();
    let mut metrics: Vec<&str> = Vec::new();
    for op in &entry.ops {
        match op {
            OpD::Timestamp(_) => {
                timestamps += 1;
            }
            OpD::Config(ConfD::Split) => split = true,
            OpD::Config(ConfD::Unroutable) => unroutable = true,
            OpD::Config(ConfD::EntryDims(sets)) => {
                entry_dims_seen += 1;
                if entry_dims_seen > 1 {
                    out.push(Defect::EntryDimsTwice);
                } else if dimensioned_metric_seen {
                    out.push(Defect::EntryDimsLate);
                } else if sets.is_empty() {
                    out.push(Defect::EntryDimsEmpty);
                } else {
                    declared.extend(sets.iter().flatten().cloned());
                }
            }
            OpD::Value(name, v) => {
                if name.is_empty() {
                    out.push(Defect::EmptyName);
                    continue;
                }
                if name == "_aws" {
                    out.push(Defect::ReservedName);
                    continue;
                }
                match v {
                    ValD::Nothing => {}
                    ValD::Error(_) => out.push(Defect::ValueError),
                    ValD::Str(_) => {
                        if written.iter().any(|(n, _)| n == name) {
                            out.push(Defect::DuplicateName);
                        }
                        written.push((name, None));
                        strings.push(name);
                    }
                    ValD::Metric { dims, .. } => {
                        let key = if dims.is_empty() || cfg.allow_ignored {
                            Vec::new()
                        } else {
                            if !split {
                                out.push(Defect::DimensionsWithoutSplit);
                            }
                            dimensioned_metric_seen = true;
                            let mut k = dims.clone();
                            k.sort();
                            k
                        };
                        if written
                            .iter()
                            .any(|(n, k)| n == name && (k.is_none() || k.as_ref() == Some(&key)))
                        {
                            out.push(Defect::DuplicateName);
                        }
                        written.push((name, Some(key)));
                        metrics.push(name);
                    }
                }
            }
        }
    }
    if timestamps > 1 {
        out.push(Defect::MultipleTimestamps);
    }
    declared.sort();
    declared.dedup();
    for d in &declared {
        if metrics.iter().any(|m| m == d) {
            out.push(Defect::MetricUnderDimensionName);
        } else if !strings.iter().any(|s| s == d) && !unroutable {
            out.push(Defect::MissingDimension);
        }
    }
    out.sort();
    out.dedup();
    out
}

/// Shapes outside the listed defects that still produce two members with one name: a
/// per-metric dimension key that repeats, or equals the name of a string / of a metric of the
/// same record. Returned as a classification used to key violations.
pub fn dimension_key_collision(cfg: &CfgD, entry: &EntryD) -> Option<&'static str> {
    if cfg.allow_ignored {
        return None;
    }
    let mut strings: Vec<&str> = Vec::new();
    for op in &entry.ops {
        if let OpD::Value(n, ValD::Str(_)) = op {
            strings.push(n);
        }
    }
    let mut res = None;
    for op in &entry.ops {
        if let OpD::Value(_, ValD::Metric { dims, .. }) = op {
            for (i, (k, _)) in dims.iter().enumerate() {
                if dims[..i].iter().any(|(k2, _)| k2 == k) {
                    res = res.or(Some("repeated-dimension-key"));
                }
                if strings.iter().any(|s| s == k) {
                    res = res.or(Some("dimension-key-equals-string-name"));
                }
                let mut key = dims.clone();
                key.sort();
                for op2 in &entry.ops {
                    if let OpD::Value(n2, ValD::Metric { dims: d2, .. }) = op2 {
                        let mut k2 = d2.clone();
                        k2.sort();
                        if n2 == k && k2 == key {
                            res = res.or(Some("dimension-key-equals-metric-name"));
                        }
                    }
                }
            }
        }
    }
    res
}
