//! EMF formatter harness shared by C02, C03, C08, C14 and C16: entry *descriptions* that are
//! interpreted by a `ScriptEntry: Entry`, formatter configuration descriptions, and a runner.

pub mod gen_;
pub mod layers;
pub mod mutate;
pub mod reference;

use metrique_writer_core::config::{AllowSplitEntries, AllowUnroutableEntries, EntryDimensions};
use metrique_writer_core::format::Format;
use metrique_writer_core::sample::SampledFormat;
use metrique_writer_core::unit::{NegativeScale, PositiveScale};
use metrique_writer_core::value::FlagConstructor;
use metrique_writer_core::{
    Entry, EntryConfig, EntryWriter, IoStreamError, MetricFlags, Observation, Unit, Value,
    ValueWriter,
};
pub use metrique_writer_format_emf::Emf;
use metrique_writer_format_emf::{
    HighStorageResolutionCtor, MetricDefinition, MetricDirective, NoMetricCtor,
    StorageResolution,
};
use serde_json::{Value as J, json};
use std::borrow::Cow;
use std::time::{Duration, SystemTime};

// ------------------------------------------------------------------------------------------
// entry descriptions

#[derive(Clone, Copy, Debug, PartialEq)]
pub enum Obs {
    U(u64),
    F(f64),
    R(f64, u64),
}

impl Obs {
    pub fn to_observation(self) -> Observation {
        match self {
            Obs::U(v) => Observation::Unsigned(v),
            Obs::F(v) => Observation::Floating(v),
            Obs::R(total, occurrences) => Observation::Repeated { total, occurrences },
        }
    }
    pub fn to_json(self) -> J {
        match self {
            Obs::U(v) => json!({ "U": v.to_string() }),
            Obs::F(v) => json!({ "F": format!("{v:?}") }),
            Obs::R(t, o) => json!({ "R": [format!("{t:?}"), o.to_string()] }),
        }
    }
}

#[derive(Clone, Copy, Debug, PartialEq, Eq, Hash)]
pub enum UnitD {
    None,
    Milli,
    Count,
    KiloByte,
    Custom,
}

pub const CUSTOM_UNIT: &str = "x\"y";

impl UnitD {
    pub fn unit(self) -> Unit {
        match self {
            UnitD::None => Unit::None,
            UnitD::Milli => Unit::Second(NegativeScale::Milli),
            UnitD::Count => Unit::Count,
            UnitD::KiloByte => Unit::Byte(PositiveScale::Kilo),
            UnitD::Custom => Unit::Custom(CUSTOM_UNIT),
        }
    }
    /// the CloudWatch name the reference expects in the metric definition
    pub fn expected_name(self) -> Option<&'static str> {
        match self {
            UnitD::None => None,
            UnitD::Milli => Some("Milliseconds"),
            UnitD::Count => Some("Count"),
            UnitD::KiloByte => Some("Kilobytes"),
            UnitD::Custom => Some(CUSTOM_UNIT),
        }
    }
}

#[derive(Clone, Copy, Debug, PartialEq, Eq, Hash)]
pub enum FlagD {
    None,
    HighRes,
    NoMetric,
}

#[derive(Clone, Debug, PartialEq)]
pub enum ValD {
    Str(String),
    Metric {
        obs: Vec<Obs>,
        unit: UnitD,
        dims: Vec<(String, String)>,
        flag: FlagD,
    },
    /// a value that reports an error of its own
    Error(String),
    /// a value that writes nothing (e.g. `None`)
    Nothing,
}

/// The validation error a `ValD::Error(text)` reports: one reason per " && "-separated part of the
/// text (an error value may carry several reasons).
pub fn error_of(text: &str) -> metrique_writer_core::ValidationError {
    let mut parts = text.split(" && ");
    let mut e = metrique_writer_core::ValidationError::invalid(parts.next().unwrap_or(""));
    for p in parts {
        e.extend(metrique_writer_core::ValidationError::invalid(p));
    }
    e
}

impl Value for ValD {
    fn write(&self, writer: impl ValueWriter) {
        match self {
            ValD::Str(s) => writer.string(s),
            ValD::Metric {
                obs,
                unit,
                dims,
                flag,
            } => {
                let flags = match flag {
                    FlagD::None => MetricFlags::empty(),
                    FlagD::HighRes => HighStorageResolutionCtor::construct(),
                    FlagD::NoMetric => NoMetricCtor::construct(),
                };
                // iterators are handed over in both shapes a caller may use: with an exact size
                // hint (odd numbers of observations / odd numbers of dimensions) and with only an
                // upper bound (a `filter`), as a value that skips optional dimensions would
                let exact_dims = dims.len() % 2 == 1;
                let exact_obs = obs.len() % 2 == 1;
                let d_exact = dims.iter().map(|(k, v)| (k.as_str(), v.as_str()));
                let d_loose = dims.iter().map(|(k, v)| (k.as_str(), v.as_str())).filter(|_| true);
                let o_exact = obs.iter().map(|o| o.to_observation());
                let o_loose = obs.iter().map(|o| o.to_observation()).filter(|_| true);
                match (exact_obs, exact_dims) {
                    (true, true) => writer.metric(o_exact, unit.unit(), d_exact, flags),
                    (true, false) => writer.metric(o_exact, unit.unit(), d_loose, flags),
                    (false, true) => writer.metric(o_loose, unit.unit(), d_exact, flags),
                    (false, false) => writer.metric(o_loose, unit.unit(), d_loose, flags),
                }
            }
            ValD::Error(m) => writer.error(error_of(m)),
            ValD::Nothing => {}
        }
    }
}

#[derive(Clone, Debug, PartialEq)]
pub enum ConfD {
    Split,
    Unroutable,
    /// entry-level dimension sets
    EntryDims(Vec<Vec<String>>),
}

#[derive(Clone, Debug, PartialEq)]
pub enum OpD {
    /// nanoseconds relative to the epoch (negative = before it)
    Timestamp(i128),
    Config(ConfD),
    Value(String, ValD),
}

#[derive(Clone, Debug, PartialEq, Default)]
pub struct EntryD {
    pub ops: Vec<OpD>,
}

pub fn ts_from_nanos(n: i128) -> SystemTime {
    if n >= 0 {
        SystemTime::UNIX_EPOCH
            + Duration::new((n / 1_000_000_000) as u64, (n % 1_000_000_000) as u32)
    } else {
        let m = -n;
        SystemTime::UNIX_EPOCH
            - Duration::new((m / 1_000_000_000) as u64, (m % 1_000_000_000) as u32)
    }
}

impl EntryD {
    pub fn to_json(&self) -> J {
        J::Array(
            self.ops
                .iter()
                .map(|op| match op {
                    OpD::Timestamp(n) => json!({ "timestamp_ns": n.to_string() }),
                    OpD::Config(ConfD::Split) => json!({ "config": "AllowSplitEntries" }),
                    OpD::Config(ConfD::Unroutable) => json!({ "config": "AllowUnroutableEntries" }),
                    OpD::Config(ConfD::EntryDims(d)) => json!({ "config": { "EntryDimensions": d } }),
                    OpD::Value(name, ValD::Str(s)) => json!({ "value": name, "string": s }),
                    OpD::Value(name, ValD::Error(s)) => json!({ "value": name, "error": s }),
                    OpD::Value(name, ValD::Nothing) => json!({ "value": name, "nothing": true }),
                    OpD::Value(
                        name,
                        ValD::Metric {
                            obs,
                            unit,
                            dims,
                            flag,
                        },
                    ) => json!({
                        "value": name,
                        "obs": obs.iter().map(|o| o.to_json()).collect::<Vec<_>>(),
                        "unit": format!("{unit:?}"),
                        "dims": dims,
                        "flag": format!("{flag:?}"),
                    }),
                })
                .collect(),
        )
    }

    /// Compile into an `Entry` the real formatter can consume.
    pub fn compile(&self) -> ScriptEntry<'_> {
        let configs = self
            .ops
            .iter()
            .map(|op| match op {
                OpD::Config(ConfD::Split) => Some(Conf::Split(AllowSplitEntries::new())),
                OpD::Config(ConfD::Unroutable) => {
                    Some(Conf::Unroutable(AllowUnroutableEntries::default()))
                }
                OpD::Config(ConfD::EntryDims(sets)) => {
                    let sets: Vec<Cow<'static, [Cow<'static, str>]>> = sets
                        .iter()
                        .map(|s| {
                            Cow::Owned(
                                s.iter()
                                    .map(|d| Cow::Owned(d.clone()))
                                    .collect::<Vec<Cow<'static, str>>>(),
                            )
                        })
                        .collect();
                    Some(Conf::Dims(EntryDimensions::new(Cow::Owned(sets))))
                }
                _ => None,
            })
            .collect();
        ScriptEntry { d: self, configs }
    }
}

pub enum Conf {
    Split(AllowSplitEntries),
    Unroutable(AllowUnroutableEntries),
    Dims(EntryDimensions),
}

pub struct ScriptEntry<'d> {
    d: &'d EntryD,
    /// parallel to d.ops (Some for config ops)
    configs: Vec<Option<Conf>>,
}

impl Entry for ScriptEntry<'_> {
    fn write<'a>(&'a self, w: &mut impl EntryWriter<'a>) {
        for (op, conf) in self.d.ops.iter().zip(&self.configs) {
            match op {
                OpD::Timestamp(n) => w.timestamp(ts_from_nanos(*n)),
                OpD::Config(_) => {
                    let c: &'a dyn EntryConfig = match conf.as_ref().expect("compiled") {
                        Conf::Split(c) => c,
                        Conf::Unroutable(c) => c,
                        Conf::Dims(c) => c,
                    };
                    w.config(c)
                }
                OpD::Value(name, v) => w.value(name.as_str(), v),
            }
        }
    }
}

// ------------------------------------------------------------------------------------------
// formatter configuration descriptions

#[derive(Clone, Copy, Debug, PartialEq, Eq, Hash)]
pub enum Ctor {
    /// `Emf::all_validations`
    AllValidations,
    /// `Emf::no_validations`
    NoValidations,
    /// `Emf::builder(..).build()`
    Builder,
    /// `Emf::builder(..).skip_all_validations(false).build()`
    BuilderSkipFalse,
    /// `Emf::builder(..).skip_all_validations(true).build()`
    BuilderSkipTrue,
}

impl Ctor {
    /// Does the documentation promise validations with this constructor in this build profile?
    /// `builder()` "defaults to disabling some validations when debug assertions are disabled",
    /// so in that profile it promises nothing either way (None).
    pub fn validations_promised(self) -> Option<bool> {
        match self {
            Ctor::AllValidations => Some(true),
            Ctor::NoValidations | Ctor::BuilderSkipTrue => Some(false),
            Ctor::Builder | Ctor::BuilderSkipFalse => {
                if cfg!(debug_assertions) {
                    Some(true)
                } else {
                    None
                }
            }
        }
    }
}

/// sampling multiplicity requested through `SampledEmf::format_with_sample_rate`
#[derive(Clone, Copy, Debug, PartialEq, Eq, Hash)]
pub enum Mult {
    /// plain `Format::format`
    None,
    /// rate 1.0 → weight 1
    One,
    /// rate 0.5 → weight 2
    Two,
    /// rate 2^-70 → weight u64::MAX
    Max,
}

impl Mult {
    pub fn rate(self) -> Option<f32> {
        match self {
            Mult::None => None,
            Mult::One => Some(1.0),
            Mult::Two => Some(0.5),
            Mult::Max => Some(f32::from_bits(0x1c80_0000)), // 2^-70
        }
    }
    pub fn weight(self) -> Option<u64> {
        match self {
            Mult::None => None,
            Mult::One => Some(1),
            Mult::Two => Some(2),
            Mult::Max => Some(u64::MAX),
        }
    }
}

#[derive(Clone, Debug, PartialEq, Eq, Hash)]
pub struct CfgD {
    pub ctor: Ctor,
    pub namespaces: Vec<String>,
    pub default_dims: Vec<Vec<String>>,
    pub extra_directive: bool,
    pub log_group: Option<String>,
    pub allow_ignored: bool,
    pub mult: Mult,
}

pub const EXTRA_NS: &str = "Extra\"NS";
pub const EXTRA_NS_EMPTY: &str = "ExtraEmpty";
pub const EXTRA_DIM: &str = "XD";
pub const EXTRA_METRIC: &str = "XM";

impl CfgD {
    pub fn simple(ctor: Ctor) -> CfgD {
        CfgD {
            ctor,
            namespaces: vec!["NS".into()],
            default_dims: vec![vec![]],
            extra_directive: false,
            log_group: None,
            allow_ignored: false,
            mult: Mult::None,
        }
    }
    pub fn to_json(&self) -> J {
        json!({
            "ctor": format!("{:?}", self.ctor),
            "namespaces": self.namespaces,
            "default_dims": self.default_dims,
            "extra_directive": self.extra_directive,
            "log_group": self.log_group,
            "allow_ignored_dimensions": self.allow_ignored,
            "sampling": format!("{:?}", self.mult),
        })
    }
    /// `Emf::all_validations` / `Emf::no_validations` take no further options, so they are only
    /// generated for plain configurations; configurations with options go through the builder
    /// (which validates by default exactly when debug assertions are on - the harness's main
    /// build profile has them on, the `nda` profile has them off).
    pub fn build(&self) -> Emf {
        let ns0 = self.namespaces[0].clone();
        let dims = self.default_dims.clone();
        match self.ctor {
            Ctor::AllValidations => {
                assert!(self.is_plain(), "AllValidations with builder options");
                return Emf::all_validations(ns0, dims);
            }
            Ctor::NoValidations => {
                assert!(self.is_plain(), "NoValidations with builder options");
                return Emf::no_validations(ns0, dims);
            }
            _ => {}
        }
        let mut b = Emf::builder(ns0, dims);
        for ns in &self.namespaces[1..] {
            b = b.add_namespace(ns.clone());
        }
        if self.extra_directive {
            b = b.directive(MetricDirective {
                dimensions: vec![vec![EXTRA_DIM]],
                metrics: vec![MetricDefinition {
                    name: EXTRA_METRIC,
                    unit: Unit::Count,
                    storage_resolution: Some(StorageResolution::Second),
                }],
                namespace: EXTRA_NS,
            });
            b = b.directive(MetricDirective {
                dimensions: vec![vec![EXTRA_DIM]],
                metrics: vec![],
                namespace: EXTRA_NS_EMPTY,
            });
        }
        if let Some(lg) = &self.log_group {
            b = b.log_group_name(lg.clone());
        }
        b = b.allow_ignored_dimensions(self.allow_ignored);
        match self.ctor {
            Ctor::BuilderSkipTrue => b.skip_all_validations(true).build(),
            Ctor::Builder => b.build(),
            Ctor::BuilderSkipFalse => b.skip_all_validations(false).build(),
            Ctor::AllValidations | Ctor::NoValidations => unreachable!(),
        }
    }
    /// Some(true): documentation promises validations; Some(false): promises none; None: unspecified
    pub fn validating(&self) -> Option<bool> {
        self.ctor.validations_promised()
    }
    pub fn is_plain(&self) -> bool {
        !self.extra_directive
            && self.log_group.is_none()
            && !self.allow_ignored
            && self.namespaces.len() == 1
    }
}

// ------------------------------------------------------------------------------------------
// running a case

#[derive(Debug, Clone, PartialEq)]
pub enum Outcome {
    Ok,
    Validation(String),
    Io(String),
}

pub struct ConstRng(pub u64);
impl rand::RngCore for ConstRng {
    fn next_u32(&mut self) -> u32 {
        self.0 as u32
    }
    fn next_u64(&mut self) -> u64 {
        self.0
    }
    fn fill_bytes(&mut self, dst: &mut [u8]) {
        for b in dst {
            *b = self.0 as u8;
        }
    }
}

pub fn outcome_of(r: Result<(), IoStreamError>) -> Outcome {
    match r {
        Ok(()) => Outcome::Ok,
        Err(IoStreamError::Validation(v)) => Outcome::Validation(v.to_string()),
        Err(IoStreamError::Io(e)) => Outcome::Io(e.to_string()),
    }
}

/// Long-lived runner for one configuration; keeps formatter state across calls (C14).
pub enum Runner {
    Plain(Emf),
    Sampled(metrique_writer_format_emf::SampledEmf<ConstRng>, f32),
}

impl Runner {
    pub fn new(cfg: &CfgD) -> Runner {
        Self::from_emf(cfg.build(), cfg.mult)
    }
    pub fn from_emf(emf: Emf, mult: Mult) -> Runner {
        match mult.rate() {
            None => Runner::Plain(emf),
            Some(rate) => Runner::Sampled(emf.with_sampling_and_rng(ConstRng(0)), rate),
        }
    }
    pub fn format(&mut self, entry: &EntryD, out: &mut impl std::io::Write) -> Outcome {
        let compiled = entry.compile();
        self.format_entry(&compiled, out)
    }
    pub fn format_entry(&mut self, entry: &impl Entry, out: &mut impl std::io::Write) -> Outcome {
        match self {
            Runner::Plain(emf) => outcome_of(emf.format(entry, out)),
            Runner::Sampled(s, rate) => outcome_of(s.format_with_sample_rate(entry, out, *rate)),
        }
    }
    /// One call in an explicit mode on a sampling formatter: `None` = the unsampled
    /// `Format::format` route of the same formatter ("bypass"), `Some(rate)` = that sample rate.
    /// On a plain formatter the mode is ignored.
    pub fn format_in_mode(&mut self, entry: &EntryD, out: &mut impl std::io::Write, mode: Option<f32>) -> Outcome {
        let compiled = entry.compile();
        match self {
            Runner::Plain(emf) => outcome_of(emf.format(&compiled, out)),
            Runner::Sampled(s, _) => match mode {
                None => outcome_of(Format::format(s, &compiled, out)),
                Some(rate) => outcome_of(s.format_with_sample_rate(&compiled, out, rate)),
            },
        }
    }
    pub fn is_sampled(&self) -> bool {
        matches!(self, Runner::Sampled(..))
    }
    /// A clone of this (possibly used) formatter; `None` for a sampling formatter, which is not
    /// `Clone`. A clone must behave like a formatter of the same configuration, whatever the
    /// original had formatted before.
    pub fn clone_used(&self) -> Option<Runner> {
        match self {
            Runner::Plain(emf) => Some(Runner::Plain(emf.clone())),
            Runner::Sampled(..) => None,
        }
    }
}

/// One-shot: fresh formatter from `pristine`, format one entry.
pub fn run_fresh(pristine: &Emf, mult: Mult, entry: &EntryD, out: &mut Vec<u8>) -> Outcome {
    out.clear();
    Runner::from_emf(pristine.clone(), mult).format(entry, out)
}

// ------------------------------------------------------------------------------------------
// replay: rebuild a case from the JSON written into a replay file (`to_json` above)

fn parse_f64(s: &str) -> f64 {
    match s {
        "NaN" => f64::NAN,
        "inf" => f64::INFINITY,
        "-inf" => f64::NEG_INFINITY,
        other => other.parse().expect("float in replay file"),
    }
}

impl EntryD {
    pub fn from_json(j: &J) -> Option<EntryD> {
        let mut ops = Vec::new();
        for op in j.as_array()? {
            if let Some(ts) = op.get("timestamp_ns") {
                ops.push(OpD::Timestamp(ts.as_str()?.parse().ok()?));
            } else if let Some(c) = op.get("config") {
                if let Some(sets) = c.get("EntryDimensions") {
                    let sets: Vec<Vec<String>> = sets.as_array()?.iter().map(|s| s.as_array().unwrap().iter().map(|d| d.as_str().unwrap().to_string()).collect()).collect();
                    ops.push(OpD::Config(ConfD::EntryDims(sets)));
                } else if c.as_str()? == "AllowSplitEntries" {
                    ops.push(OpD::Config(ConfD::Split));
                } else {
                    ops.push(OpD::Config(ConfD::Unroutable));
                }
            } else {
                let name = op.get("value")?.as_str()?.to_string();
                let val = if let Some(s) = op.get("string") {
                    ValD::Str(s.as_str()?.to_string())
                } else if let Some(e) = op.get("error") {
                    ValD::Error(e.as_str()?.to_string())
                } else if op.get("nothing").is_some() {
                    ValD::Nothing
                } else {
                    let obs = op.get("obs")?.as_array()?.iter().map(|o| {
                        if let Some(u) = o.get("U") { Obs::U(u.as_str().unwrap().parse().unwrap()) }
                        else if let Some(f) = o.get("F") { Obs::F(parse_f64(f.as_str().unwrap())) }
                        else { let r = o.get("R").unwrap(); Obs::R(parse_f64(r[0].as_str().unwrap()), r[1].as_str().unwrap().parse().unwrap()) }
                    }).collect();
                    let unit = match op.get("unit")?.as_str()? { "Milli" => UnitD::Milli, "Count" => UnitD::Count, "KiloByte" => UnitD::KiloByte, "Custom" => UnitD::Custom, _ => UnitD::None };
                    let flag = match op.get("flag")?.as_str()? { "HighRes" => FlagD::HighRes, "NoMetric" => FlagD::NoMetric, _ => FlagD::None };
                    let dims = op.get("dims")?.as_array()?.iter().map(|d| (d[0].as_str().unwrap().to_string(), d[1].as_str().unwrap().to_string())).collect();
                    ValD::Metric { obs, unit, dims, flag }
                };
                ops.push(OpD::Value(name, val));
            }
        }
        Some(EntryD { ops })
    }
}

impl CfgD {
    pub fn from_json(j: &J) -> Option<CfgD> {
        let strs = |v: &J| -> Vec<String> { v.as_array().map(|a| a.iter().map(|x| x.as_str().unwrap_or("").to_string()).collect()).unwrap_or_default() };
        Some(CfgD {
            ctor: match j.get("ctor")?.as_str()? {
                "AllValidations" => Ctor::AllValidations,
                "NoValidations" => Ctor::NoValidations,
                "Builder" => Ctor::Builder,
                "BuilderSkipFalse" => Ctor::BuilderSkipFalse,
                _ => Ctor::BuilderSkipTrue,
            },
            namespaces: strs(j.get("namespaces")?),
            default_dims: j.get("default_dims")?.as_array()?.iter().map(strs).collect(),
            extra_directive: j.get("extra_directive")?.as_bool()?,
            log_group: j.get("log_group")?.as_str().map(|s| s.to_string()),
            allow_ignored: j.get("allow_ignored_dimensions")?.as_bool()?,
            mult: match j.get("sampling")?.as_str()? { "One" => Mult::One, "Two" => Mult::Two, "Max" => Mult::Max, _ => Mult::None },
        })
    }
}

/// Re-runs the single (config, entry) case of a replay file on a fresh real formatter and
/// prints what the oracles say. Returns true if C02's and C03's oracles are satisfied.
pub fn replay_file(path: &std::path::Path) -> bool {
    let v: J = serde_json::from_slice(&std::fs::read(path).expect("replay file")).expect("json");
    let r = &v["replay"];
    let (Some(cfg), Some(entry)) = (CfgD::from_json(&r["config"]), EntryD::from_json(&r["entry"])) else {
        println!("replay file has no (config, entry) case: {}", r);
        return false;
    };
    let pristine = cfg.build();
    let mut out = Vec::new();
    let outcome = run_fresh(&pristine, cfg.mult, &entry, &mut out);
    println!("config : {}", cfg.to_json());
    println!("entry  : {}", entry.to_json());
    println!("outcome: {outcome:?}");
    println!("output : {}", String::from_utf8_lossy(&out));
    let defects = reference::defects(&cfg, &entry);
    println!("defects per statement: {defects:?}; dimension-key collision: {:?}", reference::dimension_key_collision(&cfg, &entry));
    let mut ok = true;
    match &outcome {
        Outcome::Ok => match reference::parse_output(&out) {
            Ok(recs) => {
                println!("strict parse: ok, {} record(s), duplicate member: {:?}", recs.len(), recs.iter().find_map(|r| r.duplicate_member.clone()));
                if defects.is_empty() && reference::dimension_key_collision(&cfg, &entry).is_none() {
                    match reference::compare(&cfg, &reference::expected_records(&cfg, &entry), &recs) {
                        Ok(()) => println!("reference interpretation: records match"),
                        Err(m) => {
                            println!("reference interpretation: MISMATCH {m}");
                            ok = false;
                        }
                    }
                }
                if recs.iter().any(|r| r.duplicate_member.is_some()) {
                    ok = false;
                }
                if !defects.is_empty() && cfg.validating() == Some(true) {
                    println!("a malformed entry was ACCEPTED with validations enabled");
                    ok = false;
                }
            }
            Err(m) => {
                println!("strict parse: FAILED {m}");
                ok = false;
            }
        },
        Outcome::Validation(_) => {
            if !out.is_empty() {
                println!("bytes written although a validation error was reported");
                ok = false;
            }
            if defects.is_empty() {
                println!("an entry with none of the listed defects was REJECTED");
                ok = false;
            }
        }
        Outcome::Io(_) => ok = false,
    }
    ok
}
