//! The edit neighbourhood of valid base entries: every entry within one edit (insert an
//! operation from the op alphabet at any position, delete any operation, swap two adjacent
//! operations) and, over a reduced alphabet (quick) or the full one (thorough), within two.
//! The oracle (`reference::defects`) classifies each resulting entry from scratch, so the
//! enumeration does not need to know which edits are "defect injections".

use super::gen_::*;
use super::*;
use vh_common::Tier;

pub fn body_alphabet(full: bool) -> Vec<ValD> {
    let m = |obs: Vec<Obs>, dims: Vec<(String, String)>| ValD::Metric {
        obs,
        unit: UnitD::None,
        dims,
        flag: FlagD::None,
    };
    let mut v = vec![
        ValD::Str(s("s")),
        // (an empty string is a value like any other: it provides a declared dimension and
        // takes its name)
        ValD::Str(s("")),
        m(vec![Obs::U(1)], vec![]),
        m(vec![Obs::U(1)], vec![(s("k"), s("v"))]),
        // one dimension set written in two orders (the same set: a second value under the same
        // name in it is a duplicate)
        m(vec![Obs::U(1)], vec![(s("j"), s("x")), (s("k"), s("v"))]),
        m(vec![Obs::U(2)], vec![(s("k"), s("v")), (s("j"), s("x"))]),
        // a value flagged `NoMetric` (a member without a metric definition) takes its name like
        // any other value: a second value under that name is a duplicate (round 14, `C08l`)
        ValD::Metric { obs: vec![Obs::U(3)], unit: UnitD::None, dims: vec![], flag: FlagD::NoMetric },
    ];
    if full {
        v.extend([
            m(vec![Obs::F(f64::NAN)], vec![]),
            m(vec![Obs::U(1)], vec![(s("k"), s("v")), (s("k"), s("w"))]),
            m(vec![], vec![]),
            // skipped metrics that still open a dimension set
            m(vec![Obs::F(f64::NAN)], vec![(s("k"), s("v"))]),
            m(vec![], vec![(s("k"), s("z"))]),
            m(vec![Obs::U(2), Obs::F(0.5)], vec![(s("j"), s("x"))]),
            ValD::Error(s("value error")),
            ValD::Nothing,
            ValD::Metric { obs: vec![Obs::U(4)], unit: UnitD::None, dims: vec![(s("k"), s("v"))], flag: FlagD::NoMetric },
            ValD::Metric { obs: vec![Obs::U(5)], unit: UnitD::None, dims: vec![], flag: FlagD::HighRes },
        ]);
    }
    v
}

pub fn op_alphabet(full: bool) -> Vec<OpD> {
    let mut ops = vec![
        OpD::Timestamp(TS_SMALL_NS),
        // a timestamp before the unix epoch is a timestamp too (second one: a defect)
        OpD::Timestamp(-1_000_000),
        OpD::Config(ConfD::EntryDims(vec![vec![s("E")]])),
    ];
    if full {
        ops.extend([
            OpD::Config(ConfD::Split),
            OpD::Config(ConfD::EntryDims(vec![])),
            OpD::Config(ConfD::EntryDims(vec![vec![s("G")]])),
            OpD::Config(ConfD::EntryDims(vec![vec![]])),
        ]);
    }
    let names: Vec<&str> = if full {
        vec!["M", "N", "A", "E", "k", "", "_aws", "Z"]
    } else {
        vec!["M", "k", "", "A"]
    };
    for n in names {
        for b in body_alphabet(full) {
            ops.push(OpD::Value(s(n), b));
        }
    }
    ops
}

pub fn edits_of(entry: &EntryD, alphabet: &[OpD]) -> Vec<EntryD> {
    let mut out = Vec::new();
    let n = entry.ops.len();
    for pos in 0..=n {
        for op in alphabet {
            let mut e = entry.clone();
            e.ops.insert(pos, op.clone());
            out.push(e);
        }
    }
    for pos in 0..n {
        let mut e = entry.clone();
        e.ops.remove(pos);
        out.push(e);
    }
    for pos in 0..n.saturating_sub(1) {
        if entry.ops[pos] != entry.ops[pos + 1] {
            let mut e = entry.clone();
            e.ops.swap(pos, pos + 1);
            out.push(e);
        }
    }
    out
}

pub fn base_value_sets() -> Vec<Vec<(String, ValD)>> {
    let m = |obs: Vec<Obs>, dims: Vec<(String, String)>| ValD::Metric {
        obs,
        unit: UnitD::Milli,
        dims,
        flag: FlagD::None,
    };
    let kv = || vec![(s("k"), s("v"))];
    vec![
        vec![],
        vec![(s("M"), ValD::Str(s("text")))],
        vec![(s("M"), m(vec![Obs::U(7)], vec![]))],
        vec![(s("M"), m(vec![Obs::U(7)], kv())), (s("N"), ValD::Str(s("text")))],
        vec![
            (s("M"), m(vec![Obs::U(7)], kv())),
            (s("N"), m(vec![Obs::F(2.5), Obs::U(1)], vec![])),
        ],
        vec![(s("M"), m(vec![Obs::U(7)], kv())), (s("N"), m(vec![Obs::U(8)], kv()))],
        vec![
            (s("M"), m(vec![Obs::U(7)], kv())),
            (s("N"), m(vec![Obs::U(8)], vec![(s("k"), s("w\"")), (s("j"), s("x"))])),
        ],
    ]
}

pub fn base_frames(tier: Tier) -> Vec<Frame> {
    let mut f = vec![
        frame_minimal(),
        Frame {
            ts: TsD::Small,
            edims: EDimsD::One,
            dim_strings_last: false,
            always_split: false,
        },
    ];
    if tier == Tier::Thorough {
        f.push(Frame {
            ts: TsD::Big,
            edims: EDimsD::Two,
            dim_strings_last: true,
            always_split: true,
        });
    }
    f
}

/// One unit of neighbourhood work: a base entry under a configuration.
pub struct Seed {
    pub ci: usize,
    pub base: EntryD,
    /// also enumerate all double edits
    pub pairs: bool,
}

/// Seeds for every configuration x base frame x base value set. Double edits are enumerated for
/// the configurations without sampling that are plain or have exactly two default dimension sets.
pub fn seeds(tier: Tier, cfgs: &[CfgD]) -> Vec<Seed> {
    let mut out = Vec::new();
    for (ci, cfg) in cfgs.iter().enumerate() {
        let pairs = cfg.mult == Mult::None
            && (cfg.is_plain() && cfg.default_dims.len() == 1
                || cfg.default_dims.len() == 2 && cfg.namespaces.len() <= 2);
        for frame in base_frames(tier) {
            for values in base_value_sets() {
                out.push(Seed {
                    ci,
                    base: build_entry(cfg, frame, values),
                    pairs,
                });
            }
        }
    }
    out
}

/// Calls `f` on the base entry, on all its single edits over the full op alphabet and (if
/// `seed.pairs`) on all double edits: first edit over the reduced alphabet, second over the
/// reduced (quick) / full (thorough) alphabet. Returns the number of entries visited.
pub fn for_each_neighbour(seed: &Seed, tier: Tier, mut f: impl FnMut(&EntryD)) -> u64 {
    let full = op_alphabet(true);
    let mut n = 1;
    f(&seed.base);
    for e1 in edits_of(&seed.base, &full) {
        f(&e1);
        n += 1;
    }
    if seed.pairs {
        let first = op_alphabet(false);
        let second = op_alphabet(tier == Tier::Thorough);
        for e1 in edits_of(&seed.base, &first) {
            for e2 in edits_of(&e1, &second) {
                f(&e2);
                n += 1;
            }
        }
    }
    n
}
