#!/usr/bin/env python3
"""
C07 program generator (deterministic, stdlib only).

    python3 gen.py --tier quick|thorough --out /verif/harness/vh-progs

writes, below <out>/src:

    gen_sh_{vals,wide,slim,enum}.rs   shared type definitions (`include!`d by the shards that use them)
    gen_shared.json            data description of those types (attribute trees)
    gen_shard_NN.rs / .json    per-shard roots (NN = 00..44) and their description
    gen_concat_NN.rs           the slice of the `Concatenated` boundary sweep run by shard NN
    gen_manifest.json          what was generated (definitions, configurations per shard)

The bin targets are FIXED files (src/bin/c07.rs, src/bin/c07_shard_00.rs .. c07_shard_44.rs); they
`include!` the generated files, so the crate builds right after this script ran:

    python3 gen.py --tier T --out /verif/harness/vh-progs
    cd /verif/harness && RUSTFLAGS="--cfg metrique_verif" CARGO_TARGET_DIR=<tgt> \
        cargo build --offline --release -p vh-progs --bins
    VERIF_ROOT=<root> <tgt>/release/c07 --tier T

Every Rust type definition and its description come from ONE Python structure (the dicts built by
`struct_ty` / `enum_ty` / `strenum_ty` / NEWTYPES), the
description is `json.dump` of that structure, the Rust text is printed from it.

Space (see DESIGN.md C07):
  container variant v = (rename_all in {none,PascalCase,snake_case,kebab-case,preserve}) x
                        (no prefix | prefix | exact_prefix)                       -> 15
  flatten edge kind e = none | prefix = ".." | exact_prefix = ".."                 -> 3
                        (every edge of a struct has its own prefix string; 6 of the 30 prefixed
                        edges of a struct carry a 60-character prefix, so that 2-edge chains
                        cross the 100-byte const-string limit)
  W0..W14  wide leaves  (26 emitting fields: plain x {a, foo_bar, request_count2}, unit, name,
                        name+unit, ignore, Option None/Some, format, str, sample_group,
                        value(string) enums of all 5 styles, 4 value newtypes)
  K0..K14  slim leaves  (plain, unit, Option Some, name, Option None, ignore)
  both tiers:
    Q0..Q14   2 levels: 45 flatten fields (3 edge kinds x 15 WIDE leaves)        => 675 paths
    P0..P14   enum parents: 3 edge kinds x entry enums E{v}_{t} (15 container variants x 5 tag
              kinds {none, name, name+sample_group, name_exact, name_exact+sample_group};
              8 variants each: tuple x 3 edge kinds, struct, unit, renamed unit, renamed
              struct, digit identifier). The parent's own prefix kind rotates: parent (s, p)
              holds the enums with index = p mod 3, so every parent style x edge kind x enum
              type occurs (thorough 25 enums per parent; quick 15: tag kinds none, name+sg,
              name_exact+sg). Each parent is built for 8 seeds => every variant in every field.
    E{v}_{t}  every entry enum also as a root, 8 variants each (shard v)
  thorough:   M0..M14 with 45 flatten fields (3 x 15 slim leaves), R0..R14 with 45 flatten
              fields (3 x 15 middles)                           => 15*45*45 = 30 375 paths
  quick:      depth 3 over every (style, edge, style, edge, style) with the prefix kinds
              rotating: MQ0..MQ14 and RQ0..RQ14 with 15 edges each       => 3 375 paths
  plus, distributed over the shards, the `Concatenated` sweep: all (len_s, len_t) with
  len_s + len_t in 95..=105 (1111 pairs) and 512 three-part nestings (both groupings).

Measured cost: rustc needs ~17 ms per (emitted field x distinct prefix chain) because the 100-arm
const match of `Concatenated` is evaluated for every name; that, not the run time (0.1 s per
shard), bounds the space. quick ~ 65-90 s CPU per shard, thorough ~ 4-5 min CPU per shard.
"""
import argparse
import json
import os

STYLES = [("none", None), ("pascal", "PascalCase"), ("snake", "snake_case"),
          ("kebab", "kebab-case"), ("preserve", "preserve")]
PKINDS = ["none", "prefix", "exact"]
NSHARDS = 45
SEED_MUL = 257  # child seed = s*257 + k + 1 (mirrored in src/run.rs)


def variant(v):
    return STYLES[v // 3], PKINDS[v % 3]


def code(k):
    return chr(97 + k // 26) + chr(97 + k % 26)


FILL = "lorem_ipsum_dolor_sit_amet_consectetur_adipiscing_elit_sed_do_eiusmod_tempor"


def infl_prefix(level, k, long_):
    """A distinct inflectable prefix (letters, '_' and '-' only) in one of three input shapes."""
    c = code(k)
    shape = k % 3
    words = [level + "x", c]
    if long_:
        for w in FILL.split("_"):
            cand = words + [w]
            if len("_".join(cand)) + 1 > 60:
                break
            words = cand
    if shape == 0:
        return "_".join(words) + "_"
    if shape == 1:
        return "-".join(words) + "-"
    return "".join(w.capitalize() for w in words)


def exact_prefix(level, k, long_):
    c = code(k)
    base = (level + "E." + c + ":") if k % 2 == 0 else (level.upper() + "e_" + c + "-Q.")
    if long_:
        pad = ("Lorem_ipsum-DOLOR.sit:amet+consectetur@adipiscing#elit" * 2)[: 60 - len(base)]
        base = base[:-1] + pad + base[-1]
    return base


CPREFIX = {  # container-level prefixes (inflectable ones must end with a delimiter)
    "L": ("lf_pre_", "LF.x:"),
    # the same text as `prefix` and as `exact_prefix` of sibling types with the same field
    # identifiers (a name must not depend on what was expanded before it)
    "M": ("mid_pre_", "mid_pre_"),
    "R": ("rootPre_", "RT#"),
    "Q": ("rootPre_", "RT#"),
    "P": ("par_pre-", "PA!"),
    "E": ("En-pre_", "EN%"),
}


def cprefix(level, pkind):
    if pkind == "none":
        return None
    infl, ex = CPREFIX[level]
    return {"kind": pkind, "s": infl if pkind == "prefix" else ex}


# ---------------------------------------------------------------------------------------------
# field / type constructors (the single source of truth)

def val(t, j, unit=None, fmt=None):
    return {"t": t, "j": j, "unit": unit, "fmt": fmt}


def fld(ident, fk, leaf, v=None, name=None, sg=False, edge=None, child=None, rty=None, opt=False):
    # opt (flatten fields only): the field's type is Option<Child> and holds Some(child); names,
    # values and sample-group pairs are those of the child flattened directly
    return {"ident": ident, "fk": fk, "leaf": leaf, "val": v, "name": name, "sg": sg,
            "edge": edge, "child": child, "rty": rty, "opt": opt}


RUST_TY = {"u32": "u32", "u64": "u64", "bool": "bool", "f64": "f64", "dur": "Duration",
           "str": "&'static str", "opt_none_u32": "Option<u32>", "opt_none_str": "Option<&'static str>",
           "opt_some_u32": "Option<u32>", "opt_some_bool": "Option<bool>"}


def leaf_fields():
    f = []
    j = [0]

    def add(ident, leaf, t, fk="plain", unit=None, fmt=None, name=None, sg=False):
        f.append(fld(ident, fk, leaf, val(t, j[0], unit, fmt), name=name, sg=sg))
        j[0] += 1

    # identifiers from {a, foo_bar, request_count2} (+ same-shape siblings: a struct cannot repeat one)
    add("a", "plain", "u32")
    add("foo_bar", "plain", "u64")
    add("request_count2", "plain", "bool")
    add("b", "unit", "u64", unit="Byte")
    add("baz_qux", "unit", "dur", unit="Second")
    add("retry_count3", "unit", "f64", unit="Percent")
    add("lat_ms", "plain", "dur")
    add("c_named", "name", "u32", fk="named", name="Exact_Name-X")
    add("d_named", "name+unit", "u64", fk="named", name="exact.name2", unit="Count")
    add("ig_one", "ignore", "u32", fk="ignore")
    add("e", "option-none", "opt_none_u32")
    add("opt_none_s", "option-none", "opt_none_str")
    add("f", "option-some", "opt_some_u32")
    add("opt_some_b", "option-some", "opt_some_bool")
    add("h_fmt", "format", "u32", fmt="ToString")
    add("s_val", "plain-str", "str")
    add("sg_one", "sample_group", "str", sg=True)
    add("sg_two", "sample_group+name", "str", fk="named", name="SG-Named", sg=True)
    for si, (sname, _) in enumerate(STYLES):
        add("op_" + sname[:2] + "x", "string-enum", "strenum:S%d" % si, sg=(si in (1, 3)))
    add("nt_count", "value-newtype", "newtype:NtCount")
    add("nt_status", "value-newtype", "newtype:NtStatus", sg=True)
    add("nt_plain", "value-newtype", "newtype:NtPlain")
    add("nt_fmt2", "value-newtype", "newtype:NtFmt")
    return f


def slim_fields():
    """Leaf of the depth-3 space. rustc needs ~17 ms per (field x distinct prefix chain) -- the
    100-arm const match of `Concatenated` is evaluated for every name -- so the 30 375-path space
    only fits the time budget with a small leaf; every other leaf kind is in the 2-level space."""
    return [
        fld("a", "plain", "plain", val("u32", 0)),
        fld("foo_bar", "plain", "unit", val("u64", 1, unit="Byte")),
        fld("request_count2", "plain", "option-some", val("opt_some_u32", 2)),
        fld("c_named", "named", "name", val("u32", 3), name="Exact_Name-X"),
        fld("e", "plain", "option-none", val("opt_none_u32", 4)),
        fld("ig_one", "ignore", "ignore", val("u32", 5)),
    ]


def is_long(parent_v, child_v):
    return child_v % 5 == parent_v // 3


def struct_ty(name, level, v, mode, own, edges):
    """edges: list of (edge kind index, child type name, child variant index)"""
    (sname, _), pk = variant(v)
    fields = list(own)
    for k, (e, child, cv) in enumerate(edges):
        kind = PKINDS[e]
        if kind == "none":
            edge = None
        else:
            long_ = cv is not None and is_long(v, cv)
            lvl = level.lower()
            s = infl_prefix(lvl, k, long_) if kind == "prefix" else exact_prefix(lvl, k, long_)
            edge = {"kind": kind, "s": s}
        fields.append(fld("f%d" % k, "flatten", "flatten", edge=edge, child=child, opt=(k % 3 == 1)))
    return {"name": name, "shape": "struct", "mode": mode, "style": sname,
            "cprefix": cprefix(level, pk), "fields": fields, "v": v}


TAGS = [None,
        {"kind": "name", "s": "op_kind", "sg": False},
        {"kind": "name", "s": "op_kind", "sg": True},
        {"kind": "exact", "s": "my_op-X", "sg": False},
        {"kind": "exact", "s": "my_op-X", "sg": True}]
NV = 8  # variants per entry enum


def enum_ty(v, t):
    (sname, _), pk = variant(v)

    def x0(k, edge):
        return fld(str(k), "flatten", "flatten", edge=edge, child="X0")

    variants = [
        {"ident": "Tn", "name": None, "vk": "tuple", "fields": [x0(0, None)]},
        {"ident": "Tp", "name": None, "vk": "tuple",
         "fields": [x0(0, {"kind": "prefix", "s": "tq_ab-"}),
                    fld("1", "ignore", "ignore", val("u32", 1))]},
        {"ident": "Tx", "name": None, "vk": "tuple",
         "fields": [x0(0, {"kind": "exact", "s": "TX.q:"})]},
        {"ident": "Sv", "name": None, "vk": "struct", "fields": [
            fld("a", "plain", "plain", val("u32", 0)),
            fld("foo_bar", "named", "name", val("u32", 1), name="Sv-Named.x"),
            fld("request_count2", "plain", "unit", val("u64", 2, unit="Byte")),
            # NOT generated: `#[metrics(ignore)] ig: u32` -- an ignored field in a STRUCT variant of an
            # entry enum does not compile on the unchanged tree (E0026/E0559 in the generated
            # close/write code: the ignored field is dropped from the Entry variant but still
            # bound and assigned). Compile-time, hence outside C07; reported as a finding.
            fld("opt_n", "plain", "option-none", val("opt_none_u32", 4)),
            fld("sg_v", "plain", "sample_group", val("str", 5), sg=True),
            fld("inner", "flatten", "flatten", edge={"kind": "prefix", "s": "SvIn"}, child="X0"),
        ]},
        # an acronym and an underscore: the inflector changes such identifiers in every style
        {"ident": "HTTPUnit_V", "name": None, "vk": "unit", "fields": []},
        {"ident": "RenamedUnit", "name": "renamed-Unit_v", "vk": "unit", "fields": []},
        {"ident": "RenamedSv", "name": "renamed_sv", "vk": "struct",
         "fields": [fld("foo_bar", "plain", "plain", val("u32", 0))]},
        {"ident": "Http2Get", "name": None, "vk": "unit", "fields": []},
    ]
    assert len(variants) == NV
    return {"name": "E%d_%d" % (v, t), "shape": "enum", "mode": "subfield_owned", "style": sname,
            "cprefix": cprefix("E", pk), "tag": TAGS[t], "variants": variants, "v": v}


def strenum_ty(si):
    return {"name": "S%d" % si, "shape": "strenum", "style": STYLES[si][0], "variants": [
        {"ident": "CountDucks", "name": None},
        {"ident": "Other", "name": "Custom-X_y"},
        {"ident": "A", "name": None},
        {"ident": "Http2Get", "name": None},
        {"ident": "HTTPError", "name": None},
        {"ident": "Read_Data", "name": None},
    ]}


NEWTYPES = [
    {"name": "NtCount", "shape": "newtype", "form": "tuple", "sg": False,
     "val": val("u64", 0, unit="Count")},
    {"name": "NtStatus", "shape": "newtype", "form": "named", "sg": True, "val": val("str", 0)},
    {"name": "NtPlain", "shape": "newtype", "form": "tuple", "sg": False, "val": val("u32", 0)},
    {"name": "NtFmt", "shape": "newtype", "form": "tuple", "sg": False,
     "val": val("u32", 0, fmt="ToString")},
]

X0 = {"name": "X0", "shape": "struct", "mode": "subfield", "style": "none", "cprefix": None, "v": 0,
      "fields": [fld("zed", "plain", "plain", val("u32", 0)),
                 fld("sgz", "plain", "sample_group", val("str", 1), sg=True)]}


# ---------------------------------------------------------------------------------------------
# Rust emission

def attr_list(items):
    return "#[metrics(%s)]" % ", ".join(items) if items else "#[metrics]"


def container_attrs(ty, extra=()):
    items = list(extra)
    if ty.get("mode") and ty["mode"] != "root":
        items.append(ty["mode"])
    style = dict(STYLES)[ty["style"]]
    if style:
        items.append('rename_all = "%s"' % style)
    cp = ty.get("cprefix")
    if cp:
        items.append('%s = "%s"' % ("prefix" if cp["kind"] == "prefix" else "exact_prefix", cp["s"]))
    return items


def field_ty(f):
    if f["fk"] == "flatten":
        return "Option<%s>" % f["child"] if f.get("opt") else f["child"]
    t = f["val"]["t"]
    if t.startswith("strenum:") or t.startswith("newtype:"):
        return t.split(":")[1]
    return RUST_TY[t]


def field_attrs(f):
    items = []
    if f["fk"] == "flatten":
        items.append("flatten")
        if f["edge"]:
            items.append('%s = "%s"' % ("prefix" if f["edge"]["kind"] == "prefix" else "exact_prefix",
                                        f["edge"]["s"]))
        return items
    if f["fk"] == "ignore":
        return ["ignore"]
    if f["fk"] == "named":
        items.append('name = "%s"' % f["name"])
    if f["sg"]:
        items.append("sample_group")
    if f["val"]["unit"]:
        items.append("unit = %s" % f["val"]["unit"])
    if f["val"]["fmt"]:
        items.append("format = %s" % f["val"]["fmt"])
    return items


def field_init(f, k):
    """Rust expression building the field from the container seed `s` (k = field index)."""
    if f["fk"] == "flatten":
        inner = "mk_%s(cs(s, %d))" % (f["child"], k)
        return "Some(%s)" % inner if f.get("opt") else inner
    v = f["val"]
    t, j = v["t"], v["j"]
    if t.startswith("strenum:"):
        return "mk_%s(s, %d)" % (t.split(":")[1], j)
    if t.startswith("newtype:"):
        return "mk_%s(s, %d)" % (t.split(":")[1], j)
    return "v_%s(s, %d)" % (t, j)


def emit_struct(ty, out):
    out.append(attr_list(container_attrs(ty)))
    out.append("pub struct %s {" % ty["name"])
    for f in ty["fields"]:
        a = field_attrs(f)
        out.append("    %spub %s: %s," % ((attr_list(a) + " ") if a else "", f["ident"], field_ty(f)))
    out.append("}")
    out.append("pub fn mk_%s(s: u64) -> %s { %s {" % (ty["name"], ty["name"], ty["name"]))
    for k, f in enumerate(ty["fields"]):
        out.append("    %s: %s," % (f["ident"], field_init(f, k)))
    out.append("} }")


def emit_enum(ty, out):
    extra = []
    if ty["tag"]:
        t = ty["tag"]
        inner = '%s = "%s"' % ("name" if t["kind"] == "name" else "name_exact", t["s"])
        if t["sg"]:
            inner += ", sample_group"
        extra.append("tag(%s)" % inner)
    out.append(attr_list(container_attrs(ty, extra)))
    out.append("pub enum %s {" % ty["name"])
    for var in ty["variants"]:
        pre = ('#[metrics(name = "%s")] ' % var["name"]) if var["name"] else ""
        if var["vk"] == "unit":
            out.append("    %s%s," % (pre, var["ident"]))
        elif var["vk"] == "tuple":
            parts = ["%s %s" % (attr_list(field_attrs(f)), field_ty(f)) for f in var["fields"]]
            out.append("    %s%s(%s)," % (pre, var["ident"], ", ".join(parts)))
        else:
            out.append("    %s%s {" % (pre, var["ident"]))
            for f in var["fields"]:
                a = field_attrs(f)
                out.append("        %s%s: %s," % ((attr_list(a) + " ") if a else "", f["ident"], field_ty(f)))
            out.append("    },")
    out.append("}")
    out.append("pub fn mk_%s(s: u64) -> %s { match s %% %d {" % (ty["name"], ty["name"], NV))
    for i, var in enumerate(ty["variants"]):
        pat = "_" if i == NV - 1 else str(i)
        n = ty["name"] + "::" + var["ident"]
        if var["vk"] == "unit":
            out.append("    %s => %s," % (pat, n))
        elif var["vk"] == "tuple":
            out.append("    %s => %s(%s)," % (pat, n, ", ".join(field_init(f, k) for k, f in enumerate(var["fields"]))))
        else:
            out.append("    %s => %s { %s }," % (pat, n, ", ".join(
                "%s: %s" % (f["ident"], field_init(f, k)) for k, f in enumerate(var["fields"]))))
    out.append("} }")


def emit_strenum(ty, out):
    items = ["value(string)"]
    style = dict(STYLES)[ty["style"]]
    if style:
        items.append('rename_all = "%s"' % style)
    out.append(attr_list(items))
    out.append("#[derive(Clone, Copy)]")
    out.append("pub enum %s {" % ty["name"])
    for var in ty["variants"]:
        pre = ('#[metrics(name = "%s")] ' % var["name"]) if var["name"] else ""
        out.append("    %s%s," % (pre, var["ident"]))
    out.append("}")
    n = len(ty["variants"])
    out.append("pub fn mk_%s(s: u64, j: u64) -> %s { match nn(s, j) %% %d {" % (ty["name"], ty["name"], n))
    for i, var in enumerate(ty["variants"]):
        out.append("    %s => %s::%s," % ("_" if i == n - 1 else str(i), ty["name"], var["ident"]))
    out.append("} }")


def emit_newtype(ty, out):
    items = ["value"] + (["sample_group"] if ty["sg"] else [])
    v = ty["val"]
    fa = []
    if v["unit"]:
        fa.append("unit = %s" % v["unit"])
    if v["fmt"]:
        fa.append("format = %s" % v["fmt"])
    fa = (attr_list(fa) + " ") if fa else ""
    out.append(attr_list(items))
    if ty["form"] == "tuple":
        out.append("pub struct %s(%spub %s);" % (ty["name"], fa, RUST_TY[v["t"]]))
        out.append("pub fn mk_%s(s: u64, j: u64) -> %s { %s(v_%s(s, j)) }" % (ty["name"], ty["name"], ty["name"], v["t"]))
    else:
        out.append("pub struct %s { #[metrics(ignore)] pub ig: u32, %spub inner: %s }" % (ty["name"], fa, RUST_TY[v["t"]]))
        out.append("pub fn mk_%s(s: u64, j: u64) -> %s { %s { ig: 99, inner: v_%s(s, j) } }" % (ty["name"], ty["name"], ty["name"], v["t"]))


EMIT = {"struct": emit_struct, "enum": emit_enum, "strenum": emit_strenum, "newtype": emit_newtype}


def emit_types(types):
    out = ["// @generated by gen.py -- do not edit"]
    for ty in types:
        EMIT[ty["shape"]](ty, out)
        out.append("")
    return "\n".join(out) + "\n"


# ---------------------------------------------------------------------------------------------
# concat boundary sweep

def concat_pairs():
    pairs = []
    for total in range(95, 106):
        for ls in range(0, total + 1):
            pairs.append((ls, total - ls))
    return pairs


def concat_triples():
    pts = [0, 1, 49, 50, 51, 99, 100, 101]
    return [(a, b, c) for a in pts for b in pts for c in pts if a + b + c <= 320]


def emit_concat(shard):
    out = ["// @generated by gen.py -- do not edit",
           "pub fn concat_sweep(sh: &mut vh_progs::run::Shard) {"]
    n2 = n3 = 0
    for i, (a, b) in enumerate(concat_pairs()):
        if i % NSHARDS == shard:
            out.append("    sh.concat2::<A<%d>, B<%d>>(%d, %d);" % (a, b, a, b))
            n2 += 1
    for i, (a, b, c) in enumerate(concat_triples()):
        if i % NSHARDS == shard:
            out.append("    sh.concat3::<A<%d>, B<%d>, C<%d>>(%d, %d, %d);" % (a, b, c, a, b, c))
            n3 += 1
    out.append("}")
    return "\n".join(out) + "\n", n2, n3


# ---------------------------------------------------------------------------------------------

def build(tier):
    """-> (groups: {group name: [types]}, shards: [{groups, types, roots}])  -- 45 shards:
    3i+0: Q{i} (+ thorough R{i}_0)   3i+1: P{i}, E{i}_* (+ thorough R{i}_1)
    3i+2: quick RQ{i} / thorough R{i}_2.
    (rustc needs ~0.5 MB and ~17 ms per emitted field x prefix chain: 45 bins of <= ~2.5 GB
    instead of 15 bins of 6 GB keep 16 parallel jobs inside 64 GB)"""
    groups = {}
    groups["vals"] = [strenum_ty(si) for si in range(5)] + NEWTYPES
    # W = wide leaf (every leaf kind; 2-level space), K = slim leaf (depth-3 space)
    groups["wide"] = [struct_ty("W%d" % v, "L", v, "subfield", leaf_fields(), []) for v in range(15)]
    enums = [enum_ty(v, t) for v in range(15) for t in range(5)]
    groups["enum"] = [X0] + enums

    def own(level):
        lo = level.lower()
        return [fld(lo + "_own", "plain", "plain", val("u32", 0)),
                fld(lo + "_named", "named", "name", val("u64", 1), name=level + "d.Named-x")]

    full_edges = lambda lvl: [(e, "%s%d" % (lvl, c), c) for e in range(3) for c in range(15)]
    kind_edges = lambda lvl, e: [(e, "%s%d" % (lvl, c), c) for c in range(15)]

    def rot_edges(lvl, v):
        pk = v % 3
        return [(e, "%s%d" % (lvl, sc * 3 + (pk + sc) % 3), sc * 3 + (pk + sc) % 3)
                for e in range(3) for sc in range(5)]

    slim = [struct_ty("K%d" % v, "L", v, "subfield", slim_fields(), []) for v in range(15)]
    if tier == "quick":
        # reduced depth-3: MQ{v} -> 15 leaf edges, RQ{v} -> 15 MQ edges
        slim += [struct_ty("MQ%d" % v, "M", v, "subfield_owned", own("M"), rot_edges("K", v)) for v in range(15)]
    else:
        slim += [struct_ty("M%d" % v, "M", v, "subfield_owned", own("M"), full_edges("K")) for v in range(15)]
    groups["slim"] = slim

    shards = []
    for i in range(15):
        a = {"groups": ["vals", "wide"], "types": [], "roots": []}
        b = {"groups": ["enum"], "types": [], "roots": []}
        c = {"groups": [], "types": [], "roots": []}
        a["types"].append(struct_ty("Q%d" % i, "Q", i, "root", own("Q"), full_edges("W")))
        a["roots"].append(("Q%d" % i, [0]))
        # enum parents: the parent's prefix kind rotates (x = 5*container variant + tag kind; the
        # three parents of one style together hold every enum type); quick leaves out the two
        # tag kinds without `sample_group` flag variation (t = 1 and 3 are the unflagged ones)
        sel = [x for x in range(75) if x % 3 == i % 3]
        if tier == "quick":
            sel = [x for x in sel if x % 5 in (0, 2, 4)]
        pedges = [(e, enums[x]["name"], None) for e in range(3) for x in sel]
        b["types"].append(struct_ty("P%d" % i, "P", i, "root", own("P"), pedges))
        b["roots"].append(("P%d" % i, list(range(NV))))
        for t in range(5):
            b["roots"].append(("E%d_%d" % (i, t), list(range(NV))))
        if tier == "quick":
            c["groups"].append("slim")
            c["types"].append(struct_ty("RQ%d" % i, "R", i, "root", own("R"), rot_edges("MQ", i)))
            c["roots"].append(("RQ%d" % i, [1]))
        else:
            for e, sh in enumerate((a, b, c)):
                sh["groups"].append("slim")
                name = "R%d_%d" % (i, e)
                sh["types"].append(struct_ty(name, "R", i, "root", own("R"), kind_edges("M", e)))
                sh["roots"].append((name, [2 + e]))
        shards += [a, b, c]
    assert len(shards) == NSHARDS
    return groups, shards


def count_paths(types_by_name, name, memo):
    """number of root-to-terminal-container paths below one instance of `name` (enum: 1 variant)."""
    if name in memo:
        return memo[name]
    ty = types_by_name[name]
    if ty["shape"] == "enum":
        n = 1
    else:
        kids = [f["child"] for f in ty["fields"] if f["fk"] == "flatten"]
        n = sum(count_paths(types_by_name, k, memo) for k in kids) if kids else 1
    memo[name] = n
    return n


def main():
    ap = argparse.ArgumentParser()
    ap.add_argument("--tier", choices=["quick", "thorough"], required=True)
    ap.add_argument("--out", required=True, help="the vh-progs crate directory")
    args = ap.parse_args()
    src = os.path.join(args.out, "src")
    os.makedirs(src, exist_ok=True)

    groups, shards = build(args.tier)

    def write(name, text):
        # unchanged files keep their mtime, so a repeated check does not recompile anything
        path = os.path.join(src, name)
        try:
            with open(path) as fh:
                if fh.read() == text:
                    return
        except OSError:
            pass
        with open(path, "w") as fh:
            fh.write(text)

    shared = []
    for g, tys in sorted(groups.items()):
        write("gen_sh_%s.rs" % g, emit_types(tys))
        shared += tys
    write("gen_shared.json", json.dumps({"types": shared}, indent=0, sort_keys=True))
    by_name = {t["name"]: t for t in shared}
    manifest = {"tier": args.tier, "shards": [], "shared_type_definitions": len(shared)}
    total_defs = len(shared)
    total_paths = 0
    for i, sh in enumerate(shards):
        names = dict(by_name)
        names.update({t["name"]: t for t in sh["types"]})
        memo = {}
        body = "// @generated by gen.py -- do not edit\n"
        for g in sh["groups"]:
            body += 'include!("gen_sh_%s.rs");\n' % g
        body += emit_types(sh["types"])
        body += "pub fn run_roots(sh: &mut vh_progs::run::Shard) {\n"
        paths = 0
        for (r, seeds) in sh["roots"]:
            body += "    for s in %s { sh.check(\"%s\", s, record(&RootEntry::new(mk_%s(s).close()))); }\n" % (
                json.dumps(seeds), r, r)
            paths += count_paths(names, r, memo) * len(seeds)
        body += "}\n"
        write("gen_shard_%02d.rs" % i, body)
        write("gen_shard_%02d.json" % i, json.dumps({"types": sh["types"]}, indent=0, sort_keys=True))
        ctext, n2, n3 = emit_concat(i)
        write("gen_concat_%02d.rs" % i, ctext)
        total_defs += len(sh["types"])
        total_paths += paths
        manifest["shards"].append({
            "shard": i, "type_definitions": len(sh["types"]), "shared_groups": sh["groups"],
            "roots": [[r, len(s)] for r, s in sh["roots"]],
            "root_to_leaf_configurations": paths, "concat_pairs": n2, "concat_triples": n3})
    manifest["type_definitions"] = total_defs
    manifest["root_to_leaf_configurations"] = total_paths
    manifest["concat_pairs"] = len(concat_pairs())
    manifest["concat_triples"] = len(concat_triples())
    write("gen_manifest.json", json.dumps(manifest, indent=1, sort_keys=True))
    print(json.dumps({k: v for k, v in manifest.items() if k != "shards"}, sort_keys=True))


if __name__ == "__main__":
    main()
