//! Recording writer: captures, in emission order, every `EntryWriter::value` call of a closed and
//! rooted entry together with what the value wrote to its `ValueWriter`, plus the
//! `sample_group()` pairs. Nothing is deduplicated (unlike `test_util::to_test_entry`, whose maps
//! would hide a name emitted twice).

use metrique::writer::{
    Entry, EntryConfig, EntryWriter, MetricFlags, Observation, Unit, ValidationError, Value,
    ValueWriter,
};
use std::borrow::Cow;
use std::cell::RefCell;
use std::time::SystemTime;

#[derive(Clone, Debug, PartialEq)]
pub enum Obs {
    U(u64),
    F(f64),
    Rep { total: f64, occurrences: u64 },
}

/// What one `EntryWriter::value(name, v)` call produced.
#[derive(Clone, Debug, PartialEq)]
pub enum Val {
    /// the value never touched its writer (e.g. `Option::None`): contributes nothing
    Nothing,
    Str(String),
    Metric {
        obs: Vec<Obs>,
        unit: String,
        dims: Vec<(String, String)>,
    },
    Error(String),
}

#[derive(Clone, Debug, PartialEq)]
pub struct Item {
    pub name: String,
    pub val: Val,
    /// the name was handed over as `Cow::Borrowed` (const string) rather than heap-built
    pub borrowed: bool,
}

#[derive(Clone, Debug, Default)]
pub struct Recording {
    pub items: Vec<Item>,
    pub timestamps: usize,
    pub configs: usize,
    pub sample_group: Vec<(String, String)>,
}

struct Rec<'s> {
    out: &'s RefCell<Recording>,
}

struct ValRec<'s> {
    slot: &'s RefCell<Val>,
    calls: &'s RefCell<u32>,
}

impl ValueWriter for ValRec<'_> {
    fn string(self, value: &str) {
        *self.calls.borrow_mut() += 1;
        *self.slot.borrow_mut() = Val::Str(value.to_string());
    }
    fn metric<'a>(
        self,
        distribution: impl IntoIterator<Item = Observation>,
        unit: Unit,
        dimensions: impl IntoIterator<Item = (&'a str, &'a str)>,
        _flags: MetricFlags<'_>,
    ) {
        *self.calls.borrow_mut() += 1;
        let obs = distribution
            .into_iter()
            .map(|o| match o {
                Observation::Unsigned(u) => Obs::U(u),
                Observation::Floating(f) => Obs::F(f),
                Observation::Repeated { total, occurrences } => Obs::Rep { total, occurrences },
                _ => Obs::F(f64::NAN),
            })
            .collect();
        let dims = dimensions
            .into_iter()
            .map(|(k, v)| (k.to_string(), v.to_string()))
            .collect();
        *self.slot.borrow_mut() = Val::Metric {
            obs,
            unit: unit.name().to_string(),
            dims,
        };
    }
    fn error(self, error: ValidationError) {
        *self.calls.borrow_mut() += 1;
        *self.slot.borrow_mut() = Val::Error(format!("{error}"));
    }
}

impl<'a> EntryWriter<'a> for Rec<'_> {
    fn timestamp(&mut self, _timestamp: SystemTime) {
        self.out.borrow_mut().timestamps += 1;
    }
    fn value(&mut self, name: impl Into<Cow<'a, str>>, value: &(impl Value + ?Sized)) {
        let name: Cow<'a, str> = name.into();
        let borrowed = matches!(name, Cow::Borrowed(_));
        let slot = RefCell::new(Val::Nothing);
        let calls = RefCell::new(0u32);
        value.write(ValRec {
            slot: &slot,
            calls: &calls,
        });
        self.out.borrow_mut().items.push(Item {
            name: name.into_owned(),
            val: slot.into_inner(),
            borrowed,
        });
    }
    fn config(&mut self, _config: &'a dyn EntryConfig) {
        self.out.borrow_mut().configs += 1;
    }
}

/// Records a rooted entry (`RootEntry::new(x.close())`).
pub fn record(entry: &impl Entry) -> Recording {
    let out = RefCell::new(Recording::default());
    {
        let mut w = Rec { out: &out };
        entry.write(&mut w);
    }
    let mut r = out.into_inner();
    r.sample_group = entry
        .sample_group()
        .map(|(k, v)| (k.into_owned(), v.into_owned()))
        .collect();
    r
}
