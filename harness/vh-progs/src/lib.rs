//! C07 — `#[metrics]` emits the documented names, values and units for every type shape.
//!
//! * `rec`   — a recording `EntryWriter` / `ValueWriter` (ordered list, duplicates visible).
//! * `model` — the reference naming model, written from the macro's documentation, with its own
//!             case conversion (no Inflector, nothing from metrique-macro).
//! * `run`   — the runner every generated shard bin calls.
//!
//! The generated sources (`src/gen_*.rs`, `src/bin/c07_shard_*.rs`) are produced by `gen.py`.

pub mod model;
pub mod rec;
pub mod run;
pub mod vals;
