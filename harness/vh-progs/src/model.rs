//! Reference naming model for `#[metrics]`, written from the macro's documentation
//! (doc comment of `metrique::unit_of_work::metrics`, metrique/README.md "Renaming metric fields").
//! It has its own case conversion: nothing here calls Inflector or metrique-macro.
//!
//! Rules (D = doc comment of `metrics` in metrique-macro/src/lib.rs, R = metrique/README.md):
//!  N1  style in force for a container = its own `rename_all` if it names a style, else the
//!      style in force at the place it is flattened into, else identity.
//!      R: "`rename_all` is transitive—it will apply to all child structures that are
//!      `#[metrics(flatten)]`'d into the entry. ... If a struct explicitly sets a name scheme
//!      with `rename_all`, it will not be overridden by a parent."
//!      `rename_all = "preserve"` is modelled as "no style of its own" (DESIGN no-alarm choice).
//!  N2  plain field: chain + container-prefix + inflect(identifier).
//!      D: "`prefix` | Adds a prefix to all field names (prefix gets inflected)",
//!         "`exact_prefix` | Adds a prefix to all field names without inflection".
//!  N3  container prefix applies only to un-named, un-flattened fields.
//!      D: "Prefixes on the struct itself, which *only* affect fields within the metric that
//!      don't have a `name` or a `flatten` attribute".
//!  N4  `name = ".."` is never inflected, never gets the container prefix, but gets the chain.
//!      D: "Metric names assigned via the `name` attribute are not inflected", "Note that
//!      prefix-attribute-on-flatten *does* apply to nested fields that have a `name` attribute."
//!  N5  flatten prefixes accumulate outside-in; `prefix` is inflected in the style in force at
//!      the flatten site, `exact_prefix` is not. D: "`prefix` | Adds a prefix to flattened
//!      entries. Prefix will get inflected to the right case style"; R: "his-ApiLatency ...
//!      (explicit rename_all overrides the parent)", "his-exact_name".
//!  N6  an inflected prefix in snake_case / kebab-case ends with exactly one `_` / `-`, in
//!      PascalCase it has no delimiter, with no style in force it is used verbatim.
//!      R: "in `rename_all = "Preserve"`, `Downstreamsuccess` ... PascalCase `DownstreamSuccess`
//!      ... kebab-case `downstream-success` ... snake_case `downstream_success`".
//!  N7  tag(name = "..") behaves like a plain field named by that string; tag(name_exact = "..")
//!      like a `name = ".."` field. D (table): "`name` | Name of the tag field (inflectable,
//!      respects `prefix` and `rename_all`)", "`name_exact` | ... (exact, not affected by
//!      `prefix` or `rename_all`)". The tag item comes first.
//!  N8  tag value / value(string) variant = variant `name` if present, else the variant
//!      identifier in the enum's OWN `rename_all`; never prefixed. D: "Tag value respects
//!      `rename_all` and variant `name`, but not `prefix`", "Variant names respect
//!      `#[metrics(name = "...")]` and `rename_all`".
//!  N9  `ignore`d fields and `Option::None` contribute nothing; one item per other field, in
//!      declaration order, flattened children in place.
//!  N10 sample-group pairs: one (emitted name, string value) per `sample_group` field / tag,
//!      same order, same names as the emitted items (property statement; doc of
//!      `Entry::sample_group`).
//!  V   values: integers -> Unsigned, bool -> 0/1, f64 -> Floating, Duration -> milliseconds
//!      (unit Milliseconds) unless `unit = Second`; `unit = U` sets the unit; `format = ToString`
//!      and string types -> string; value newtypes behave as their inner field.
//!
//! Not determined by the documentation (accepted alternatives are COUNTED, never alarmed):
//!  U1 digit-word-boundary: whether a digit run after a letter is a word of its own
//!     (`request_count2` -> `request_count_2` vs `request_count2`).
//!  U2 tag-value-inherited-style: whether the tag value / string value follows an INHERITED style.

use crate::vals::{STRS, nn};
use serde_json::Value as J;
use std::collections::HashMap;

#[derive(Clone, Copy, PartialEq, Eq, Debug)]
pub enum Eff {
    Identity,
    Pascal,
    Snake,
    Kebab,
}

impl Eff {
    pub fn name(self) -> &'static str {
        match self {
            Eff::Identity => "identity",
            Eff::Pascal => "pascal",
            Eff::Snake => "snake",
            Eff::Kebab => "kebab",
        }
    }
    pub const ALL: [Eff; 4] = [Eff::Identity, Eff::Pascal, Eff::Snake, Eff::Kebab];
}

pub fn own_style(s: &str) -> Option<Eff> {
    match s {
        "pascal" => Some(Eff::Pascal),
        "snake" => Some(Eff::Snake),
        "kebab" => Some(Eff::Kebab),
        _ => None, // "none", "preserve"
    }
}

/// Splits into words at `_`, `-`, any other non-alphanumeric, and lower/digit -> Upper.
/// With `split_digits` a digit run following a letter is its own word.
pub fn words(s: &str, split_digits: bool) -> Vec<String> {
    let mut out: Vec<String> = Vec::new();
    let mut cur = String::new();
    let mut prev: Option<char> = None;
    for c in s.chars() {
        if !c.is_alphanumeric() {
            if !cur.is_empty() {
                out.push(std::mem::take(&mut cur));
            }
            prev = None;
            continue;
        }
        if let Some(p) = prev {
            let camel = (p.is_lowercase() || p.is_ascii_digit()) && c.is_uppercase();
            let digit = split_digits && p.is_alphabetic() && c.is_ascii_digit();
            if (camel || digit) && !cur.is_empty() {
                out.push(std::mem::take(&mut cur));
            }
        }
        cur.push(c);
        prev = Some(c);
    }
    if !cur.is_empty() {
        out.push(cur);
    }
    out
}

fn cap(w: &str) -> String {
    let mut cs = w.chars();
    match cs.next() {
        Some(f) => f.to_uppercase().collect::<String>() + &cs.as_str().to_lowercase(),
        None => String::new(),
    }
}

/// `rename_all` is documented as applying the `Inflector` crate; the two functions below restate
/// its case conversions (0.11: `to_pascal_case`, `to_snake_case`, `to_kebab_case`) from their
/// description: snake-like cases put a separator in front of every character that is not a
/// lower-case letter when a lower-case letter is next to it; Pascal case starts a word after a
/// separator, after a digit and at a lower->upper step, and lower-cases everything else (so an
/// acronym stays one word: `HTTPError` -> `Httperror` but `http_error`).
fn snake_like(s: &str, sep: char) -> String {
    let t: Vec<char> = s.trim_end_matches(|c: char| !c.is_alphanumeric()).chars().collect();
    let all: Vec<char> = s.chars().collect();
    let mut out = String::new();
    let mut first = true;
    for (i, &c) in t.iter().enumerate() {
        if !c.is_alphanumeric() {
            if !first {
                first = true;
                out.push(sep);
            }
            continue;
        }
        let not_lower = c == c.to_ascii_uppercase();
        let neighbour_lower = all.get(i + 1).map(|n| n.is_lowercase()).unwrap_or(false)
            || (i > 0 && all[i - 1].is_lowercase());
        if !first && not_lower && neighbour_lower {
            out.push(sep);
        }
        first = false;
        out.push(c.to_ascii_lowercase());
    }
    out
}

fn pascal_like(s: &str) -> String {
    let mut out = String::new();
    let mut new_word = true;
    let mut last = ' ';
    let mut found = false;
    for c in s.trim_end_matches(|c: char| !c.is_alphanumeric()).chars() {
        if !c.is_alphanumeric() {
            if found {
                new_word = true;
            }
        } else if c.is_numeric() {
            found = true;
            new_word = true;
            out.push(c);
        } else if new_word || (last.is_lowercase() && c.is_uppercase()) {
            found = true;
            new_word = false;
            out.push(c.to_ascii_uppercase());
        } else {
            found = true;
            last = c;
            out.push(c.to_ascii_lowercase());
        }
    }
    out
}

/// `split_digits = false`: the inflector's result. `true`: the coarser word-splitting reading
/// (words at separators and lower->Upper steps, a digit run after a letter its own word) that
/// callers list as an accepted alternative where the documentation's examples do not decide.
pub fn inflect(s: &str, eff: Eff, split_digits: bool) -> String {
    if !split_digits {
        return match eff {
            Eff::Identity => s.to_string(),
            Eff::Pascal => pascal_like(s),
            Eff::Snake => snake_like(s, '_'),
            Eff::Kebab => snake_like(s, '-'),
        };
    }
    match eff {
        Eff::Identity => s.to_string(),
        Eff::Pascal => words(s, split_digits).iter().map(|w| cap(w)).collect(),
        Eff::Snake => words(s, split_digits)
            .iter()
            .map(|w| w.to_lowercase())
            .collect::<Vec<_>>()
            .join("_"),
        Eff::Kebab => words(s, split_digits)
            .iter()
            .map(|w| w.to_lowercase())
            .collect::<Vec<_>>()
            .join("-"),
    }
}

pub fn inflect_prefix(s: &str, eff: Eff, split_digits: bool) -> String {
    let mut r = inflect(s, eff, split_digits);
    match eff {
        Eff::Snake => r.push('_'),
        Eff::Kebab => r.push('-'),
        _ => {}
    }
    r
}

#[derive(Clone, Debug, PartialEq)]
pub enum EVal {
    Absent,
    Ignored,
    Str(String),
    U(u64),
    F(f64),
}

#[derive(Clone, Debug)]
pub struct Exp {
    pub name: String,
    /// acceptable alternatives (documentation does not decide) with the reason
    pub alts: Vec<(String, &'static str)>,
    /// recognisable WRONG answers, for the diff class in the violation key
    pub diag: Vec<(String, &'static str)>,
    pub val: EVal,
    pub unit: String,
    /// acceptable alternative string values (tag / string-enum values)
    pub val_alts: Vec<(String, &'static str)>,
    /// class of the value for string-enum / tag values (violation key tail)
    pub val_class: String,
    pub family: &'static str,
    /// violation key tail (without the diff class)
    pub class: String,
    pub leaf: String,
    pub bare: String,
    pub path: String,
    /// Some(value) if the item is part of the sample group
    pub sg: Option<String>,
    /// the container says `rename_all = "preserve"` but a style is inherited (assumption A1)
    pub preserve_inherits: bool,
}

#[derive(Default)]
pub struct Expectation {
    pub items: Vec<Exp>,
    pub struct_paths: u64,
    pub enum_paths: u64,
    pub types_seen: Vec<String>,
    pub strenum_variants_seen: Vec<(String, usize)>,
}

#[derive(Clone)]
struct Ctx {
    chain_a: String,
    chain_b: String,
    inherited: Eff,
    edge: &'static str,
    path: String,
}

pub struct Model {
    pub types: HashMap<String, J>,
}

fn s<'a>(j: &'a J, k: &str) -> &'a str {
    j.get(k).and_then(|v| v.as_str()).unwrap_or("")
}

fn style_comp(own: &str, eff: Eff) -> String {
    match own_style(own) {
        Some(_) => own.to_string(),
        None => format!("{}~{}", own, eff.name()),
    }
}

fn uniq(primary: &str, cands: Vec<(String, &'static str)>) -> Vec<(String, &'static str)> {
    let mut out: Vec<(String, &'static str)> = Vec::new();
    for (c, why) in cands {
        if c != primary && !out.iter().any(|(o, _)| *o == c) {
            out.push((c, why));
        }
    }
    out
}

pub fn unit_name(attr: &str) -> &'static str {
    match attr {
        "Byte" => "Bytes",
        "Second" => "Seconds",
        "Millisecond" => "Milliseconds",
        "Percent" => "Percent",
        "Count" => "Count",
        _ => "?",
    }
}

impl Model {
    pub fn new(descs: &[&str]) -> Model {
        let mut types = HashMap::new();
        for d in descs {
            let j: J = serde_json::from_str(d).expect("type description json");
            for t in j["types"].as_array().expect("types") {
                types.insert(s(t, "name").to_string(), t.clone());
            }
        }
        Model { types }
    }

    pub fn expect(&self, root: &str, seed: u64) -> Expectation {
        let mut e = Expectation::default();
        let ctx = Ctx {
            chain_a: String::new(),
            chain_b: String::new(),
            inherited: Eff::Identity,
            edge: "root",
            path: String::new(),
        };
        self.walk(root, seed, &ctx, &mut e);
        e
    }

    fn cprefix(&self, ty: &J, eff: Eff, split: bool) -> (String, &'static str) {
        match ty.get("cprefix") {
            Some(J::Object(o)) => {
                let raw = o["s"].as_str().unwrap();
                if o["kind"] == "prefix" {
                    (inflect_prefix_container(raw, eff, split), "prefix")
                } else {
                    (raw.to_string(), "exact")
                }
            }
            _ => (String::new(), "none"),
        }
    }

    /// (kind, string value) of a value description evaluated at (seed, j)
    fn eval(
        &self,
        v: &J,
        seed: u64,
        j: u64,
        e: &mut Expectation,
    ) -> (EVal, String, Vec<(String, &'static str)>, String) {
        let t = s(v, "t");
        let n = nn(seed, j);
        let unit_attr = v.get("unit").and_then(|u| u.as_str());
        let fmt = v.get("fmt").and_then(|u| u.as_str());
        if let Some(name) = t.strip_prefix("strenum:") {
            let ty = &self.types[name];
            let vars = ty["variants"].as_array().unwrap();
            let idx = (n as usize) % vars.len();
            e.strenum_variants_seen.push((name.to_string(), idx));
            e.types_seen.push(name.to_string());
            let (val, alts) = variant_string(&vars[idx], s(ty, "style"), Eff::Identity);
            let vc = format!(
                "{}/{}",
                s(ty, "style"),
                if vars[idx].get("name").and_then(|n| n.as_str()).is_some() {
                    "named"
                } else {
                    "ident"
                }
            );
            return (EVal::Str(val), "None".into(), alts, vc);
        }
        if let Some(name) = t.strip_prefix("newtype:") {
            let ty = &self.types[name];
            e.types_seen.push(name.to_string());
            return self.eval(&ty["val"], seed, j, e);
        }
        let mut unit = "None".to_string();
        let mut val = match t {
            "u32" | "u64" | "opt_some_u32" => EVal::U(n),
            "bool" => EVal::U((n % 2 == 1) as u64),
            "opt_some_bool" => EVal::U((n % 2 == 0) as u64),
            "f64" => EVal::F(n as f64 + 0.5),
            "dur" => {
                unit = "Milliseconds".into();
                EVal::F(n as f64)
            }
            "str" => EVal::Str(STRS[(n % 4) as usize].to_string()),
            "opt_none_u32" | "opt_none_str" => EVal::Absent,
            other => panic!("unknown value type {other}"),
        };
        if let Some(u) = unit_attr {
            if t == "dur" && u == "Second" {
                val = EVal::F(n as f64 / 1000.0);
            }
            unit = unit_name(u).to_string();
        }
        if fmt == Some("ToString") {
            val = match val {
                EVal::U(u) => EVal::Str(u.to_string()),
                other => other,
            };
            unit = "None".into();
        }
        (val, unit, vec![], String::new())
    }

    fn fields(
        &self,
        ty: &J,
        fields: &[J],
        seed: u64,
        ctx: &Ctx,
        eff: Eff,
        e: &mut Expectation,
    ) -> bool {
        let own = s(ty, "style");
        let (cp_a, cpk) = self.cprefix(ty, eff, false);
        let (cp_b, _) = self.cprefix(ty, eff, true);
        let cp_raw = match ty.get("cprefix") {
            Some(J::Object(o)) => o["s"].as_str().unwrap().to_string(),
            _ => String::new(),
        };
        let tyname = s(ty, "name");
        let mut had_child = false;
        for (k, f) in fields.iter().enumerate() {
            let fk = s(f, "fk");
            let ident = s(f, "ident");
            let path = format!("{}{}.{}", ctx.path, tyname, ident);
            if fk == "flatten" {
                had_child = true;
                let (ea, eb, ek, edesc): (String, String, &'static str, String) =
                    match f.get("edge") {
                        Some(J::Object(o)) => {
                            let raw = o["s"].as_str().unwrap();
                            if o["kind"] == "prefix" {
                                (
                                    inflect_prefix(raw, eff, false),
                                    inflect_prefix(raw, eff, true),
                                    "prefix",
                                    format!("[prefix={raw}]"),
                                )
                            } else {
                                (
                                    raw.to_string(),
                                    raw.to_string(),
                                    "exact",
                                    format!("[exact_prefix={raw}]"),
                                )
                            }
                        }
                        _ => (String::new(), String::new(), "none", String::new()),
                    };
                let child = Ctx {
                    chain_a: format!("{}{}", ctx.chain_a, ea),
                    chain_b: format!("{}{}", ctx.chain_b, eb),
                    inherited: eff,
                    edge: ek,
                    path: format!("{path}{edesc}>"),
                };
                self.walk(s(f, "child"), crate::vals::cs(seed, k as u64), &child, e);
                continue;
            }
            let v = &f["val"];
            let j = v["j"].as_u64().unwrap();
            let (mut val, unit, val_alts, val_class) = self.eval(v, seed, j, e);
            let leaf = s(f, "leaf").to_string();
            let is_sg = f["sg"].as_bool().unwrap_or(false);
            let sg = if is_sg {
                match &val {
                    EVal::Str(x) => Some(x.clone()),
                    _ => None,
                }
            } else {
                None
            };
            let (name, alts, diag);
            let named = fk == "named";
            if named {
                let nm = s(f, "name");
                name = format!("{}{}", ctx.chain_a, nm);
                alts = uniq(
                    &name,
                    vec![(format!("{}{}", ctx.chain_b, nm), "digit-word-boundary")],
                );
                diag = uniq(
                    &name,
                    vec![
                        (
                            format!("{}{}{}", ctx.chain_a, cp_a, nm),
                            "container-prefix-added",
                        ),
                        (
                            format!("{}{}", ctx.chain_a, inflect(nm, eff, true)),
                            "inflected-name",
                        ),
                        (
                            format!("{}{}", ctx.chain_a, inflect(nm, eff, false)),
                            "inflected-name",
                        ),
                        (nm.to_string(), "chain-missing"),
                        (inflect(nm, eff, true), "chain-missing+inflected-name"),
                        (inflect(nm, eff, false), "chain-missing+inflected-name"),
                    ],
                );
            } else {
                name = format!("{}{}{}", ctx.chain_a, cp_a, inflect(ident, eff, false));
                let mut c = Vec::new();
                for ch in [&ctx.chain_a, &ctx.chain_b] {
                    for cp in [&cp_a, &cp_b] {
                        for sd in [false, true] {
                            c.push((
                                format!("{}{}{}", ch, cp, inflect(ident, eff, sd)),
                                "digit-word-boundary",
                            ));
                        }
                    }
                }
                alts = uniq(&name, c);
                let mut d = Vec::new();
                for sd in [true, false] {
                    let id = inflect(ident, eff, sd);
                    if cpk != "none" {
                        d.push((format!("{}{}", ctx.chain_a, id), "container-prefix-missing"));
                    }
                    d.push((format!("{}{}", cp_a, id), "chain-missing"));
                    d.push((id.clone(), "chain-and-container-prefix-missing"));
                    d.push((
                        format!("{}{}{}", ctx.chain_a, cp_raw, ident),
                        "not-inflected",
                    ));
                    d.push((
                        format!("{}{}{}", ctx.chain_a, cp_a, ident),
                        "identifier-not-inflected",
                    ));
                    for other in Eff::ALL {
                        if other != eff {
                            let (ocp, _) = self.cprefix(ty, other, sd);
                            d.push((
                                format!("{}{}{}", ctx.chain_a, ocp, inflect(ident, other, sd)),
                                "wrong-style",
                            ));
                        }
                    }
                }
                let mut d = uniq(&name, d);
                d.retain(|(x, _)| !alts.iter().any(|(a, _)| a == x));
                diag = d;
            }
            if fk == "ignore" {
                val = EVal::Ignored;
            }
            e.items.push(Exp {
                name,
                alts,
                diag,
                val,
                unit,
                val_alts,
                val_class,
                family: "name",
                class: format!("{}/{}/{}/{}", style_comp(own, eff), cpk, ctx.edge, leaf),
                leaf,
                bare: ident.to_string(),
                path,
                sg,
                preserve_inherits: own == "preserve" && eff != Eff::Identity,
            });
        }
        had_child
    }

    fn walk(&self, tyname: &str, seed: u64, ctx: &Ctx, e: &mut Expectation) {
        let ty = self
            .types
            .get(tyname)
            .unwrap_or_else(|| panic!("no description for type {tyname}"));
        e.types_seen.push(tyname.to_string());
        let own = s(ty, "style");
        let eff = own_style(own).unwrap_or(ctx.inherited);
        match s(ty, "shape") {
            "struct" => {
                let fields = ty["fields"].as_array().unwrap();
                let had_child = self.fields(ty, fields, seed, ctx, eff, e);
                if !had_child {
                    e.struct_paths += 1;
                }
            }
            "enum" => {
                let vars = ty["variants"].as_array().unwrap();
                let var = &vars[(seed as usize) % vars.len()];
                let vident = s(var, "ident");
                if let Some(J::Object(tag)) = ty.get("tag") {
                    let raw = tag["s"].as_str().unwrap();
                    let exact = tag["kind"] == "exact";
                    let (cp_a, cpk) = self.cprefix(ty, eff, false);
                    let (name, alts, diag);
                    if exact {
                        name = format!("{}{}", ctx.chain_a, raw);
                        alts = vec![];
                        diag = uniq(
                            &name,
                            vec![
                                (
                                    format!("{}{}", ctx.chain_a, inflect(raw, eff, true)),
                                    "inflected-name",
                                ),
                                (
                                    format!("{}{}", ctx.chain_a, inflect(raw, eff, false)),
                                    "inflected-name",
                                ),
                                (
                                    format!("{}{}{}", ctx.chain_a, cp_a, raw),
                                    "container-prefix-added",
                                ),
                                (raw.to_string(), "chain-missing"),
                                (inflect(raw, eff, true), "chain-missing+inflected-name"),
                            ],
                        );
                    } else {
                        name = format!("{}{}{}", ctx.chain_a, cp_a, inflect(raw, eff, false));
                        alts = vec![];
                        let id = inflect(raw, eff, false);
                        let mut d = vec![
                            (format!("{}{}", ctx.chain_a, id), "container-prefix-missing"),
                            (format!("{}{}", cp_a, id), "chain-missing"),
                            (id.clone(), "chain-and-container-prefix-missing"),
                            (format!("{}{}", ctx.chain_a, raw), "not-inflected-no-prefix"),
                        ];
                        if cpk == "exact" {
                            // exact_prefix + tag name inflected as ONE string
                            d.push((
                                format!(
                                    "{}{}",
                                    ctx.chain_a,
                                    inflect(&format!("{cp_a}{id}"), eff, false)
                                ),
                                "exact-prefix-inflected",
                            ));
                            d.push((
                                inflect(&format!("{cp_a}{id}"), eff, false),
                                "chain-missing+exact-prefix-inflected",
                            ));
                        }
                        for other in Eff::ALL {
                            if other != eff {
                                let (ocp, _) = self.cprefix(ty, other, false);
                                d.push((
                                    format!("{}{}{}", ctx.chain_a, ocp, inflect(raw, other, false)),
                                    "wrong-style",
                                ));
                            }
                        }
                        diag = uniq(&name, d);
                    }
                    let (val, val_alts) = variant_string(var, own, ctx.inherited);
                    let is_sg = tag["sg"].as_bool().unwrap_or(false);
                    e.items.push(Exp {
                        name,
                        alts,
                        diag,
                        val: EVal::Str(val.clone()),
                        unit: "None".into(),
                        val_alts,
                        val_class: format!(
                            "{}/{}/{}",
                            style_comp(own, ctx.inherited),
                            s(var, "vk"),
                            if var.get("name").and_then(|n| n.as_str()).is_some() {
                                "named"
                            } else {
                                "ident"
                            }
                        ),
                        family: "enum-tag",
                        class: format!(
                            "{}/{}",
                            if exact { "name_exact" } else { "name" },
                            eff.name()
                        ),
                        leaf: format!(
                            "tag-{}/{}/{}/{}/{}",
                            if exact { "name_exact" } else { "name" },
                            style_comp(own, eff),
                            cpk,
                            ctx.edge,
                            s(var, "vk")
                        ),
                        bare: raw.to_string(),
                        path: format!("{}{}::{}#tag", ctx.path, tyname, vident),
                        sg: if is_sg { Some(val) } else { None },
                        preserve_inherits: own == "preserve" && eff != Eff::Identity,
                    });
                }
                let fields = var["fields"].as_array().unwrap();
                let mut tyv = ty.clone();
                tyv["name"] = J::String(format!("{tyname}::{vident}"));
                let had_child = self.fields(&tyv, fields, seed, ctx, eff, e);
                if !had_child {
                    e.enum_paths += 1;
                }
            }
            other => panic!("cannot walk shape {other}"),
        }
    }
}

/// container-level inflectable prefix: same inflection as a flatten prefix (N2, N6)
pub fn inflect_prefix_container(raw: &str, eff: Eff, split: bool) -> String {
    inflect_prefix(raw, eff, split)
}

/// N8: variant `name`, else the identifier in the enum's own style. Alternatives: digit
/// boundary (U1) and the inherited style (U2).
fn variant_string(var: &J, own: &str, inherited: Eff) -> (String, Vec<(String, &'static str)>) {
    if let Some(n) = var.get("name").and_then(|n| n.as_str()) {
        return (n.to_string(), vec![]);
    }
    let ident = s(var, "ident");
    let eff_own = own_style(own).unwrap_or(Eff::Identity);
    let primary = inflect(ident, eff_own, false);
    let mut c = vec![(inflect(ident, eff_own, true), "digit-word-boundary")];
    if own_style(own).is_none() && inherited != Eff::Identity {
        c.push((
            inflect(ident, inherited, false),
            "tag-value-inherited-style",
        ));
        c.push((inflect(ident, inherited, true), "tag-value-inherited-style"));
    }
    let alts = uniq(&primary, c);
    (primary, alts)
}
