//! Test-input values: the generated constructors (`mk_*`) and the reference model derive every
//! field value from the container seed with the same small formulas, so that each instance of a
//! shared type carries distinguishable values.

use std::time::Duration;

pub const SEED_MUL: u64 = 257; // mirrored in gen.py
pub const STRS: [&str; 4] = ["alpha", "beta", "gamma", "delta"];

/// seed of the child held by field number `k`
pub fn cs(s: u64, k: u64) -> u64 {
    s * SEED_MUL + k + 1
}
pub fn nn(s: u64, j: u64) -> u64 {
    (s * 7 + j * 13) % 1000
}
pub fn v_u32(s: u64, j: u64) -> u32 {
    nn(s, j) as u32
}
pub fn v_u64(s: u64, j: u64) -> u64 {
    nn(s, j)
}
pub fn v_bool(s: u64, j: u64) -> bool {
    nn(s, j) % 2 == 1
}
pub fn v_f64(s: u64, j: u64) -> f64 {
    nn(s, j) as f64 + 0.5
}
pub fn v_dur(s: u64, j: u64) -> Duration {
    Duration::from_millis(nn(s, j))
}
pub fn v_str(s: u64, j: u64) -> &'static str {
    STRS[(nn(s, j) % 4) as usize]
}
pub fn v_opt_none_u32(_s: u64, _j: u64) -> Option<u32> {
    None
}
pub fn v_opt_none_str(_s: u64, _j: u64) -> Option<&'static str> {
    None
}
pub fn v_opt_some_u32(s: u64, j: u64) -> Option<u32> {
    Some(nn(s, j) as u32)
}
pub fn v_opt_some_bool(s: u64, j: u64) -> Option<bool> {
    Some(nn(s, j) % 2 == 0)
}
