//! Runner used by every generated shard bin: evaluates the reference model on the description
//! of a root type, compares it with what the real closed entry wrote to the recording writer,
//! and prints the per-shard result as one JSON line on stdout.

use crate::model::{EVal, Exp, Model};
use crate::rec::{Item, Obs, Recording, Val};
use metrique_core::concat::{Concatenated, ConstStr, MaybeConstStr, const_str_value};
use serde_json::{Value as J, json};
use std::borrow::Cow;
use std::collections::{BTreeMap, BTreeSet, HashMap};

pub use crate::vals::*;

// ---- types for the `Concatenated` boundary sweep -------------------------------------------
pub const FILL_A: &str = "abcdefghijklmnopqrstuvwxyzabcdefghijklmnopqrstuvwxyzabcdefghijklmnopqrstuvwxyzabcdefghijklmnopqrstuvwxyzabcdefghijklmnopqrstuvwxyz";
pub const FILL_B: &str = "ABCDEFGHIJKLMNOPQRSTUVWXYZABCDEFGHIJKLMNOPQRSTUVWXYZABCDEFGHIJKLMNOPQRSTUVWXYZABCDEFGHIJKLMNOPQRSTUVWXYZABCDEFGHIJKLMNOPQRSTUVWXYZ";
pub const FILL_C: &str = "0123456789012345678901234567890123456789012345678901234567890123456789012345678901234567890123456789012345678901234567890123456789";
pub struct A<const N: usize>;
pub struct B<const N: usize>;
pub struct C<const N: usize>;
impl<const N: usize> ConstStr for A<N> {
    const VAL: &'static str = FILL_A.split_at(N).0;
}
impl<const N: usize> ConstStr for B<N> {
    const VAL: &'static str = FILL_B.split_at(N).0;
}
impl<const N: usize> ConstStr for C<N> {
    const VAL: &'static str = FILL_C.split_at(N).0;
}

struct Viol {
    what: String,
    replay: J,
    count: u64,
}

pub struct Shard {
    id: usize,
    model: Model,
    viol: BTreeMap<String, Viol>,
    undetermined: BTreeMap<String, u64>,
    names: BTreeSet<u64>,
    types: BTreeSet<String>,
    strenum_variants: BTreeSet<(String, usize)>,
    enum_variants: BTreeSet<(String, u64)>,
    samples: Vec<J>,
    roots: u64,
    struct_paths: u64,
    enum_paths: u64,
    items: u64,
    sg_pairs: u64,
    none_calls: u64,
    heap_names: u64,
    preserve_inherit_items: u64,
    concat_pairs: u64,
    concat_triples: u64,
    concat_borrowed: u64,
    concat_owned: u64,
    concat_cow_unexpected: u64,
}

fn fnv(s: &str) -> u64 {
    let mut h: u64 = 0xcbf29ce484222325;
    for b in s.bytes() {
        h ^= b as u64;
        h = h.wrapping_mul(0x100000001b3);
    }
    h
}

enum NameMatch {
    Exact,
    Alt(&'static str),
    No,
}

fn name_match(e: &Exp, actual: &str) -> NameMatch {
    if e.name == actual {
        return NameMatch::Exact;
    }
    for (a, why) in &e.alts {
        if a == actual {
            return NameMatch::Alt(why);
        }
    }
    NameMatch::No
}

fn matches(e: &Exp, actual: &str) -> bool {
    !matches!(name_match(e, actual), NameMatch::No)
}

fn diff_class(e: &Exp, actual: &str) -> &'static str {
    for (c, why) in &e.diag {
        if c == actual {
            return why;
        }
    }
    "other"
}

fn val_json(v: &Val) -> J {
    match v {
        Val::Nothing => json!("nothing"),
        Val::Str(s) => json!({"string": s}),
        Val::Metric { obs, unit, dims } => {
            json!({"metric": format!("{obs:?}"), "unit": unit, "dims": dims})
        }
        Val::Error(e) => json!({"error": e}),
    }
}

fn eval_json(e: &Exp) -> J {
    match &e.val {
        EVal::Absent => json!("absent (Option::None)"),
        EVal::Ignored => json!("ignored"),
        EVal::Str(s) => json!({"string": s}),
        EVal::U(u) => json!({"metric": format!("[U({u})]"), "unit": e.unit}),
        EVal::F(f) => json!({"metric": format!("[F({f:?})]"), "unit": e.unit}),
    }
}

impl Shard {
    pub fn new(id: usize, shared_json: &str, shard_json: &str) -> Shard {
        Shard {
            id,
            model: Model::new(&[shared_json, shard_json]),
            viol: BTreeMap::new(),
            undetermined: BTreeMap::new(),
            names: BTreeSet::new(),
            types: BTreeSet::new(),
            strenum_variants: BTreeSet::new(),
            enum_variants: BTreeSet::new(),
            samples: Vec::new(),
            roots: 0,
            struct_paths: 0,
            enum_paths: 0,
            items: 0,
            sg_pairs: 0,
            none_calls: 0,
            heap_names: 0,
            preserve_inherit_items: 0,
            concat_pairs: 0,
            concat_triples: 0,
            concat_borrowed: 0,
            concat_owned: 0,
            concat_cow_unexpected: 0,
        }
    }

    fn violation(&mut self, key: String, what: impl FnOnce() -> (String, J)) {
        match self.viol.get_mut(&key) {
            Some(v) => v.count += 1,
            None => {
                let (what, replay) = what();
                self.viol.insert(
                    key,
                    Viol {
                        what,
                        replay,
                        count: 1,
                    },
                );
            }
        }
    }

    fn undet(&mut self, why: &str) {
        *self.undetermined.entry(why.to_string()).or_insert(0) += 1;
    }

    fn name_key(e: &Exp, actual: &str) -> String {
        let d = diff_class(e, actual);
        if e.family == "enum-tag" {
            format!("enum-tag:{}/{}", e.class, d)
        } else {
            format!("name:{}/{}", e.class, d)
        }
    }

    fn compare_value(&mut self, root: &str, seed: u64, e: &Exp, a: &Item) {
        let ok = match (&e.val, &a.val) {
            (EVal::Str(x), Val::Str(y)) => {
                if x == y {
                    true
                } else if let Some((_, why)) = e.val_alts.iter().find(|(alt, _)| alt == y) {
                    self.undet(why);
                    true
                } else {
                    false
                }
            }
            (EVal::U(x), Val::Metric { obs, unit, dims }) => {
                obs.len() == 1 && obs[0] == Obs::U(*x) && *unit == e.unit && dims.is_empty()
            }
            (EVal::F(x), Val::Metric { obs, unit, dims }) => {
                obs.len() == 1
                    && matches!(obs[0], Obs::F(y) if (x - y).abs() <= 1e-9 * x.abs().max(1.0))
                    && *unit == e.unit
                    && dims.is_empty()
            }
            _ => false,
        };
        if !ok {
            let key = if e.family == "enum-tag" {
                format!("enum-tag-value:{}", e.val_class)
            } else if e.leaf == "string-enum" {
                format!("string-enum:{}", e.val_class)
            } else {
                format!("value-or-unit:{}", e.leaf)
            };
            let (path, name) = (e.path.clone(), a.name.clone());
            let (ev, av) = (eval_json(e), val_json(&a.val));
            self.violation(key, || {
                (
                    format!("{path}: item {name:?} expected {ev} but the entry wrote {av}"),
                    json!({"root": root, "seed": seed, "path": path, "name": name, "expected": ev, "actual": av}),
                )
            });
        }
    }

    /// Compares one closed + rooted instance of `root` built from `seed`.
    pub fn check(&mut self, root: &str, seed: u64, rec: Recording) {
        let exp = self.model.expect(root, seed);
        self.roots += 1;
        self.struct_paths += exp.struct_paths;
        self.enum_paths += exp.enum_paths;
        for t in &exp.types_seen {
            if !self.types.contains(t) {
                self.types.insert(t.clone());
            }
        }
        for v in &exp.strenum_variants_seen {
            self.strenum_variants.insert(v.clone());
        }
        if root.starts_with('E') {
            self.enum_variants.insert((root.to_string(), seed % 8));
        }
        if rec.timestamps != 0 || rec.configs != 0 {
            let (t, c) = (rec.timestamps, rec.configs);
            self.violation("unexpected-timestamp-or-config".into(), || {
                (
                    format!("{root}: {t} timestamp and {c} config calls, none declared"),
                    json!({"root": root, "seed": seed}),
                )
            });
        }

        let expv: Vec<&Exp> = exp
            .items
            .iter()
            .filter(|e| !matches!(e.val, EVal::Absent | EVal::Ignored))
            .collect();
        let calls: Vec<&Exp> = exp
            .items
            .iter()
            .filter(|e| e.val != EVal::Ignored)
            .collect();
        if calls.len() == rec.items.len() {
            // one `value()` call per non-ignored field: compare position by position, so that a
            // wrong name cannot shift the alignment of what follows
            for (idx, (e, a)) in calls.iter().zip(rec.items.iter()).enumerate() {
                match (&e.val, &a.val) {
                    (EVal::Absent, Val::Nothing) => self.none_calls += 1,
                    (EVal::Absent, _) => {
                        let (path, name, av) = (e.path.clone(), a.name.clone(), val_json(&a.val));
                        self.violation("option-none-emitted".into(), || {
                            (
                                format!("{path}: Option::None must contribute nothing but item {name:?} = {av} was written"),
                                json!({"root": root, "seed": seed, "path": path, "name": name, "actual": av}),
                            )
                        });
                    }
                    (_, Val::Nothing) => {
                        let (path, name) = (e.path.clone(), e.name.clone());
                        self.violation(format!("missing-item:{}", e.leaf), || {
                            (
                                format!("{path}: expected item {name:?}, the field wrote nothing"),
                                json!({"root": root, "seed": seed, "path": path, "expected_name": name}),
                            )
                        });
                    }
                    _ => self.matched_or_named(root, seed, idx, e, a),
                }
            }
        } else {
            self.resync(root, seed, &exp, &expv, &rec);
        }

        // sample-group pairs (N10)
        let sgx: Vec<&Exp> = expv.iter().copied().filter(|e| e.sg.is_some()).collect();
        if sgx.len() != rec.sample_group.len() {
            let (n, m) = (sgx.len(), rec.sample_group.len());
            let got = rec.sample_group.clone();
            self.violation("sample-group-count".into(), || {
                (
                    format!("{root}: {n} sample_group fields declared, {m} pairs returned"),
                    json!({"root": root, "seed": seed, "pairs": got}),
                )
            });
        }
        for (e, (k, v)) in sgx.iter().zip(rec.sample_group.iter()) {
            self.sg_pairs += 1;
            let kind = if e.family == "enum-tag" {
                format!("tag-{}", e.class.split('/').next().unwrap_or(""))
            } else {
                e.leaf.clone()
            };
            match name_match(e, k) {
                NameMatch::Exact => {}
                NameMatch::Alt(why) => self.undet(why),
                NameMatch::No => {
                    let d = diff_class(e, k);
                    let (path, want, got) = (e.path.clone(), e.name.clone(), k.clone());
                    self.violation(format!("sample-group-name:{kind}/{d}"), || {
                        (
                            format!("{path}: documented (and item) name {want:?} but sample_group() names it {got:?}"),
                            json!({"root": root, "seed": seed, "path": path, "expected_name": want, "actual_name": got}),
                        )
                    });
                }
            }
            let want = e.sg.as_ref().unwrap();
            if want != v {
                if let Some((_, why)) = e.val_alts.iter().find(|(alt, _)| alt == v) {
                    let why = *why;
                    self.undet(why);
                } else {
                    let (path, want, got) = (e.path.clone(), want.clone(), v.clone());
                    self.violation(format!("sample-group-value:{kind}"), || {
                        (
                            format!("{path}: sample_group value {got:?}, emitted value {want:?}"),
                            json!({"root": root, "seed": seed, "path": path, "expected": want, "actual": got}),
                        )
                    });
                }
            }
        }
    }

    /// `e` and `a` are at the same position: check the name, then the value.
    fn matched_or_named(&mut self, root: &str, seed: u64, idx: usize, e: &Exp, a: &Item) {
        match name_match(e, &a.name) {
            NameMatch::No => {
                let key = Self::name_key(e, &a.name);
                let (path, want, got, class) = (
                    e.path.clone(),
                    e.name.clone(),
                    a.name.clone(),
                    e.leaf.clone(),
                );
                self.violation(key, || {
                    (
                        format!("{path}: documented name {want:?}, emitted {got:?}"),
                        json!({"root": root, "seed": seed, "path": path, "leaf": class, "expected_name": want, "actual_name": got}),
                    )
                });
            }
            NameMatch::Alt(why) => self.undet(why),
            NameMatch::Exact => {}
        }
        self.items += 1;
        if e.preserve_inherits {
            self.preserve_inherit_items += 1;
        }
        if !a.borrowed {
            self.heap_names += 1;
        }
        if a.name != e.bare {
            self.names.insert(fnv(&a.name));
            let deep = e.path.contains("prefix=")
                && (e.path.matches('>').count() >= 2 || e.family == "enum-tag");
            if self.samples.len() < 4 && deep && (seed + idx as u64) % 11 == 3 {
                self.samples.push(json!({
                    "configuration": e.path, "class": e.class, "expected_name": e.name,
                    "actual_name": a.name, "actual_value": val_json(&a.val),
                    "name_is_const_str": a.borrowed,
                }));
            }
        }
        self.compare_value(root, seed, e, a);
    }

    /// The number of `value()` calls differs from the number of non-ignored fields: align the
    /// emitted (non-empty) items with the expected ones by name, with a bounded look-ahead.
    fn resync(
        &mut self,
        root: &str,
        seed: u64,
        exp: &crate::model::Expectation,
        expv: &[&Exp],
        rec: &Recording,
    ) {
        let mut ghosts: HashMap<&str, &Exp> = HashMap::new();
        for e in exp
            .items
            .iter()
            .filter(|e| matches!(e.val, EVal::Absent | EVal::Ignored))
        {
            ghosts.insert(e.name.as_str(), e);
            for (a, _) in &e.alts {
                ghosts.insert(a.as_str(), e);
            }
        }
        let mut act: Vec<&Item> = Vec::new();
        for it in &rec.items {
            if it.val == Val::Nothing {
                self.none_calls += 1;
            } else {
                act.push(it);
            }
        }
        const W: usize = 64;
        let mut seen: HashMap<&str, u32> = HashMap::new();
        let (mut i, mut j) = (0usize, 0usize);
        while i < expv.len() && j < act.len() {
            let e = expv[i];
            let a = act[j];
            if matches(e, &a.name) {
                self.matched_or_named(root, seed, i, e, a);
                *seen.entry(a.name.as_str()).or_insert(0) += 1;
                i += 1;
                j += 1;
                continue;
            }
            let later_expected = expv[i + 1..expv.len().min(i + 1 + W)]
                .iter()
                .any(|x| matches(x, &a.name));
            if !later_expected {
                if let Some(g) = ghosts.get(a.name.as_str()) {
                    let key = if g.val == EVal::Absent {
                        "option-none-emitted"
                    } else {
                        "ignored-field-emitted"
                    };
                    let (path, name, av) = (g.path.clone(), a.name.clone(), val_json(&a.val));
                    self.violation(key.to_string(), || {
                        (
                            format!("{path}: must contribute nothing but item {name:?} = {av} was written"),
                            json!({"root": root, "seed": seed, "path": path, "name": name, "actual": av}),
                        )
                    });
                    j += 1;
                    continue;
                }
            }
            let later_actual = act[j + 1..act.len().min(j + 1 + W)]
                .iter()
                .any(|y| matches(e, &y.name));
            if later_expected && !later_actual {
                let (path, name) = (e.path.clone(), e.name.clone());
                self.violation(format!("missing-item:{}", e.leaf), || {
                    (
                        format!("{path}: expected item {name:?} was not written"),
                        json!({"root": root, "seed": seed, "path": path, "expected_name": name}),
                    )
                });
                i += 1;
                continue;
            }
            if later_actual && !later_expected {
                let dup = seen.contains_key(a.name.as_str());
                let key = if dup {
                    "duplicate-item"
                } else {
                    "unexpected-item"
                };
                let (name, av, near) = (a.name.clone(), val_json(&a.val), e.path.clone());
                self.violation(key.to_string(), || {
                    (
                        format!("item {name:?} = {av} written before {near} has no field behind it"),
                        json!({"root": root, "seed": seed, "name": name, "actual": av, "before": near}),
                    )
                });
                *seen.entry(a.name.as_str()).or_insert(0) += 1;
                j += 1;
                continue;
            }
            self.matched_or_named(root, seed, i, e, a);
            *seen.entry(a.name.as_str()).or_insert(0) += 1;
            i += 1;
            j += 1;
        }
        while i < expv.len() {
            let e = expv[i];
            let (path, name) = (e.path.clone(), e.name.clone());
            self.violation(format!("missing-item:{}", e.leaf), || {
                (
                    format!("{path}: expected item {name:?} was not written"),
                    json!({"root": root, "seed": seed, "path": path, "expected_name": name}),
                )
            });
            i += 1;
        }
        while j < act.len() {
            let a = act[j];
            let key = if let Some(g) = ghosts.get(a.name.as_str()) {
                if g.val == EVal::Absent {
                    "option-none-emitted"
                } else {
                    "ignored-field-emitted"
                }
            } else if seen.contains_key(a.name.as_str()) {
                "duplicate-item"
            } else {
                "unexpected-item"
            };
            let (name, av) = (a.name.clone(), val_json(&a.val));
            self.violation(key.to_string(), || {
                (
                    format!("trailing item {name:?} = {av} has no field behind it"),
                    json!({"root": root, "seed": seed, "name": name, "actual": av}),
                )
            });
            j += 1;
        }
    }

    fn concat_check(
        &mut self,
        got: Cow<'static, str>,
        want: String,
        const_expected: bool,
        shape: &str,
    ) {
        let borrowed = matches!(got, Cow::Borrowed(_));
        if borrowed {
            self.concat_borrowed += 1;
        } else {
            self.concat_owned += 1;
        }
        if borrowed != const_expected {
            self.concat_cow_unexpected += 1;
        }
        if got != want {
            let len = want.len();
            let g = got.to_string();
            self.violation(format!("concat-boundary:{len}"), || {
                (
                    format!(
                        "const_str_value::<{shape}> of total length {len}: got {g:?} (len {})",
                        g.len()
                    ),
                    json!({"shape": shape, "expected": want, "actual": g, "borrowed": borrowed}),
                )
            });
        }
        self.names.insert(fnv(&got));
    }

    pub fn concat2<S: MaybeConstStr, T: MaybeConstStr>(&mut self, a: usize, b: usize) {
        self.concat_pairs += 1;
        let want = format!("{}{}", &FILL_A[..a], &FILL_B[..b]);
        self.concat_check(
            const_str_value::<Concatenated<S, T>>(),
            want,
            a + b <= 100,
            &format!("Concatenated<A<{a}>, B<{b}>>"),
        );
    }

    pub fn concat3<S: MaybeConstStr, T: MaybeConstStr, U: MaybeConstStr>(
        &mut self,
        a: usize,
        b: usize,
        c: usize,
    ) {
        self.concat_triples += 1;
        let want = format!("{}{}{}", &FILL_A[..a], &FILL_B[..b], &FILL_C[..c]);
        self.concat_check(
            const_str_value::<Concatenated<Concatenated<S, T>, U>>(),
            want.clone(),
            a + b + c <= 100,
            &format!("Concatenated<Concatenated<A<{a}>, B<{b}>>, C<{c}>>"),
        );
        self.concat_check(
            const_str_value::<Concatenated<S, Concatenated<T, U>>>(),
            want,
            a + b + c <= 100,
            &format!("Concatenated<A<{a}>, Concatenated<B<{b}>, C<{c}>>>"),
        );
    }

    /// Prints the shard result (one JSON line) and exits 0.
    pub fn finish(self) -> ! {
        let viol: Vec<J> = self
            .viol
            .iter()
            .map(|(k, v)| json!({"key": k, "what": v.what, "replay": v.replay, "count": v.count}))
            .collect();
        let out = json!({
            "shard": self.id,
            "roots": self.roots,
            "struct_paths": self.struct_paths,
            "enum_paths": self.enum_paths,
            "items_compared": self.items,
            "sample_group_pairs_compared": self.sg_pairs,
            "option_none_calls": self.none_calls,
            "heap_built_names": self.heap_names,
            "preserve_inherit_items": self.preserve_inherit_items,
            "undetermined": self.undetermined,
            "violations": viol,
            "name_hashes": self.names.iter().collect::<Vec<_>>(),
            "types": self.types.iter().collect::<Vec<_>>(),
            "strenum_variants": self.strenum_variants.len(),
            "root_enum_variants": self.enum_variants.len(),
            "samples": self.samples,
            "concat": {"pairs": self.concat_pairs, "triples": self.concat_triples,
                       "borrowed": self.concat_borrowed, "owned": self.concat_owned,
                       "cow_kind_unexpected": self.concat_cow_unexpected},
        });
        println!("C07-SHARD-RESULT {out}");
        std::process::exit(0)
    }
}
