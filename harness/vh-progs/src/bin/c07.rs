//! C07 — `#[metrics]` emits the documented names, values and units for every type shape.
//!
//! Entry point of the check. The program space is GENERATED (gen.py) and compiled into the
//! `c07_shard_NN` binaries that sit next to this executable; each of them closes and roots every
//! instance of its generated types, records what the entry writes and compares it with the
//! reference naming model (`vh_progs::model`). This binary runs all shards as child processes
//! and aggregates their JSON results into the Report.

use serde_json::{Value as J, json};
use std::collections::{BTreeMap, BTreeSet};
use std::process::Command;

const MANIFEST: &str = include_str!("../gen_manifest.json");

fn main() {
    let mut rep = vh_common::Report::from_args("C07", "exploration");
    let manifest: J = serde_json::from_str(MANIFEST).expect("manifest");
    let gen_tier = manifest["tier"].as_str().unwrap_or("?").to_string();
    if gen_tier != rep.tier.name() {
        eprintln!(
            "C07: the shards were generated for tier {gen_tier:?} but --tier {} was requested; \
             run gen.py --tier {} and rebuild",
            rep.tier.name(),
            rep.tier.name()
        );
        std::process::exit(2);
    }
    let nshards = manifest["shards"].as_array().map(|a| a.len()).unwrap_or(0);
    let dir = std::env::current_exe()
        .expect("current_exe")
        .parent()
        .expect("exe dir")
        .to_path_buf();
    let mut bins = Vec::new();
    for i in 0..nshards {
        let p = dir.join(format!("c07_shard_{i:02}"));
        if p.is_file() {
            bins.push((i, p));
        } else {
            eprintln!("C07: shard binary {p:?} is missing");
        }
    }
    if bins.is_empty() {
        eprintln!("C07: no shard binaries next to {dir:?}");
        std::process::exit(2);
    }

    // run the shards in parallel (they are independent processes)
    let handles: Vec<_> = bins
        .into_iter()
        .map(|(i, p)| {
            std::thread::spawn(move || {
                let t0 = std::time::Instant::now();
                let out = Command::new(&p).output();
                (i, p, out, t0.elapsed().as_secs_f64())
            })
        })
        .collect();

    let mut completed = 0usize;
    let mut failed: Vec<String> = Vec::new();
    let mut names: BTreeSet<u64> = BTreeSet::new();
    let mut types: BTreeSet<String> = BTreeSet::new();
    let mut undetermined: BTreeMap<String, u64> = BTreeMap::new();
    let mut sums: BTreeMap<&'static str, u64> = BTreeMap::new();
    let mut concat: BTreeMap<String, u64> = BTreeMap::new();
    let mut per_shard: Vec<J> = Vec::new();
    for h in handles {
        let (i, p, out, secs) = h.join().expect("shard thread");
        let out = match out {
            Ok(o) => o,
            Err(e) => {
                failed.push(format!("shard {i}: cannot run {p:?}: {e}"));
                continue;
            }
        };
        let stdout = String::from_utf8_lossy(&out.stdout);
        let line = stdout
            .lines()
            .rev()
            .find_map(|l| l.strip_prefix("C07-SHARD-RESULT "));
        let Some(line) = line.filter(|_| out.status.success()) else {
            let err = String::from_utf8_lossy(&out.stderr);
            failed.push(format!(
                "shard {i}: status {:?}, stderr tail: {}",
                out.status.code(),
                err.lines().rev().take(5).collect::<Vec<_>>().join(" | ")
            ));
            continue;
        };
        let r: J = match serde_json::from_str(line) {
            Ok(r) => r,
            Err(e) => {
                failed.push(format!("shard {i}: bad result json: {e}"));
                continue;
            }
        };
        completed += 1;
        for k in [
            "roots",
            "struct_paths",
            "enum_paths",
            "items_compared",
            "sample_group_pairs_compared",
            "option_none_calls",
            "heap_built_names",
            "preserve_inherit_items",
            "strenum_variants",
            "root_enum_variants",
        ] {
            *sums.entry(k).or_insert(0) += r[k].as_u64().unwrap_or(0);
        }
        for h in r["name_hashes"].as_array().into_iter().flatten() {
            names.insert(h.as_u64().unwrap_or(0));
        }
        for t in r["types"].as_array().into_iter().flatten() {
            types.insert(t.as_str().unwrap_or("").to_string());
        }
        for (k, v) in r["undetermined"].as_object().into_iter().flatten() {
            *undetermined.entry(k.clone()).or_insert(0) += v.as_u64().unwrap_or(0);
        }
        for (k, v) in r["concat"].as_object().into_iter().flatten() {
            *concat.entry(k.clone()).or_insert(0) += v.as_u64().unwrap_or(0);
        }
        for v in r["violations"].as_array().into_iter().flatten() {
            let key = v["key"].as_str().unwrap_or("?").to_string();
            let n = v["count"].as_u64().unwrap_or(1);
            rep.violation(
                key.clone(),
                v["what"].as_str().unwrap_or(""),
                v["replay"].clone(),
            );
            if let Some(x) = rep.violations.by_key.get_mut(&key) {
                x.count += n - 1;
            }
        }
        for s in r["samples"].as_array().into_iter().flatten() {
            if i % 4 == 0 {
                rep.sample(s.clone());
            }
        }
        per_shard.push(json!({
            "shard": i,
            "configurations": r["struct_paths"].as_u64().unwrap_or(0) + r["enum_paths"].as_u64().unwrap_or(0),
            "items": r["items_compared"], "run_s": (secs * 100.0).round() / 100.0,
        }));
    }
    per_shard.sort_by_key(|s| s["shard"].as_u64());

    let evaluations = sums.get("struct_paths").copied().unwrap_or(0)
        + sums.get("enum_paths").copied().unwrap_or(0);
    let generated = manifest["root_to_leaf_configurations"]
        .as_u64()
        .unwrap_or(0);
    let exhaustive = failed.is_empty() && completed == nshards && evaluations == generated;
    rep.set("evaluations", evaluations);
    rep.set("configurations_generated", generated);
    rep.set("distinct_nontrivial", names.len() as u64);
    rep.set(
        "rule",
        "distinct emitted metric names (and const-string concatenations) that differ from the bare \
         field identifier, counted over every compared item of every generated configuration",
    );
    rep.set("programs", types.len() as u64);
    rep.set(
        "type_definitions_generated",
        manifest["type_definitions"].clone(),
    );
    rep.set("exhaustive", exhaustive);
    rep.set("shards_completed", completed as u64);
    rep.set("shards_expected", nshards as u64);
    for (k, v) in &sums {
        rep.set(k, *v);
    }
    rep.set("concat_sweep", json!(concat));
    rep.set("undetermined", json!(undetermined));
    rep.set("per_shard", J::Array(per_shard));
    if !failed.is_empty() {
        rep.set("shard_failures", json!(failed));
    }
    rep.assume(
        "rename_all = \"preserve\" is 'no style of its own' (inherits like an absent attribute)",
    );
    rep.assume("tag(name = ..) follows the attribute table (inflected, container prefix applied); the prose sentence 'not affected by prefix or rename_all' is read as describing name_exact");
    rep.assume("digit word boundaries and tag / string values under an INHERITED style are not determined by the documentation: accepted alternatives are counted under 'undetermined'");
    rep.assume(
        "the tag item is expected first, items in declaration order, flattened children in place",
    );
    rep.assume("attribute combinations the macro rejects at compile time, depth > 3, generics, flatten of Option<struct>, flatten_entry and timestamp fields are outside the generated space");
    if !failed.is_empty() {
        for f in &failed {
            eprintln!("C07: {f}");
        }
        if rep.violations.is_empty() {
            // no verdict possible from an incomplete run
            eprintln!("C07: incomplete run, no verdict");
            std::process::exit(2);
        }
    }
    rep.finish()
}
