#![allow(dead_code)]
use metrique::unit_of_work::metrics;
use metrique::{CloseValue, RootEntry};
use metrique::unit::{Byte, Second, Percent, Count};
use metrique::writer::value::ToString;
use std::time::Duration;
use vh_progs::rec::record;

#[metrics(value(string), rename_all = "snake_case")]
#[derive(Clone, Copy)]
enum Op { CountDucks, #[metrics(name = "Custom-X")] Other, request_count2 }

#[metrics(value)]
#[derive(Clone, Copy)]
struct Nt(#[metrics(unit = Count)] u64);

#[metrics(subfield)]
#[derive(Clone)]
struct Leaf {
    a: u32,
    foo_bar: u64,
    request_count2: bool,
    #[metrics(unit = Byte)] b: u64,
    #[metrics(unit = Second)] baz_qux: Duration,
    #[metrics(name = "Exact_Name-X")] c: u32,
    #[metrics(ignore)] d: u32,
    e: Option<u32>,
    f: Option<u32>,
    #[metrics(format = ToString)] g: u32,
    h: &'static str,
    #[metrics(sample_group)] sg_one: &'static str,
    #[metrics(sample_group)] op_kind: Op,
    new_type4: Nt,
}
fn leaf() -> Leaf { Leaf { a: 7, foo_bar: 8, request_count2: true, b: 9, baz_qux: Duration::from_millis(1500), c: 3, d: 4, e: None, f: Some(5), g: 6, h: "hv", sg_one: "sgv", op_kind: Op::CountDucks, new_type4: Nt(11) } }

#[metrics(subfield, rename_all = "preserve", prefix = "pp_")]
#[derive(Clone)]
struct LeafPres { foo_bar: u32, request_count2: u32 }

#[metrics(rename_all = "PascalCase")]
struct RootP {
    #[metrics(flatten)] l0: Leaf,
    #[metrics(flatten, prefix = "his_m7-")] l1: Leaf,
    #[metrics(flatten, exact_prefix = "EM7.")] l2: Leaf,
    #[metrics(flatten, prefix = "pq")] l3: LeafPres,
}
#[metrics(rename_all = "snake_case")]
struct RootS {
    #[metrics(flatten)] l0: Leaf,
    #[metrics(flatten, prefix = "hisM7")] l1: Leaf,
    #[metrics(flatten, prefix = "pq-")] l3: LeafPres,
}
#[metrics(rename_all = "kebab-case", prefix = "Api2_")]
struct RootK {
    request_count2: u32,
    foo_bar: u32,
    #[metrics(flatten, prefix = "his_m7_")] l1: Leaf,
}
#[metrics(rename_all = "PascalCase", prefix = "api2_")]
struct RootP2 { request_count2: u32, a: u32 }

#[metrics(subfield)]
#[derive(Clone)]
struct Small { zed: u32, #[metrics(sample_group)] sgz: &'static str }

#[metrics(tag(name_exact = "my_op-X", sample_group), rename_all = "PascalCase", prefix="en_")]
enum EnExact { Tv(#[metrics(flatten, prefix = "tv_")] Small), Sv { foo_bar: u32 }, UnitV, #[metrics(name = "renamed_v")] Rn }
#[metrics(tag(name = "my_op", sample_group), prefix="en_")]
enum EnInf { Tv(#[metrics(flatten, prefix = "tv_")] Small), Sv { foo_bar: u32 }, UnitV, #[metrics(name = "renamed_v")] Rn }
#[metrics(tag(name_exact = "my_op", sample_group))]
enum EnEx2 { Tv(#[metrics(flatten, prefix = "tv_")] Small), UnitV }

#[metrics(rename_all = "PascalCase")]
struct RootE {
    #[metrics(flatten, prefix="e1_")] e1: EnInf,
    #[metrics(flatten, prefix="e2_")] e2: EnInf,
    #[metrics(flatten, prefix="e3_")] e3: EnEx2,
    #[metrics(flatten, prefix="e4_")] e4: EnEx2,
}

fn show<E: metrique::writer::Entry>(t: &str, e: E) {
    let r = record(&e);
    println!("== {t}");
    for i in &r.items { println!("   {:?} {:?} b={}", i.name, i.val, i.borrowed); }
    println!("   sg={:?}", r.sample_group);
}

fn main() {
    show("RootP", RootEntry::new(RootP { l0: leaf(), l1: leaf(), l2: leaf(), l3: LeafPres{foo_bar:1, request_count2:2} }.close()));
    show("RootS", RootEntry::new(RootS { l0: leaf(), l1: leaf(), l3: LeafPres{foo_bar:1, request_count2:2} }.close()));
    show("RootK", RootEntry::new(RootK { request_count2: 1, foo_bar: 2, l1: leaf() }.close()));
    show("RootP2", RootEntry::new(RootP2 { request_count2: 1, a: 2 }.close()));
    show("EnExact::Tv", RootEntry::new(EnExact::Tv(Small{zed:1, sgz:"z"}).close()));
    show("EnExact::Sv", RootEntry::new(EnExact::Sv{foo_bar:1}.close()));
    show("EnExact::Rn", RootEntry::new(EnExact::Rn.close()));
    show("EnInf::Tv", RootEntry::new(EnInf::Tv(Small{zed:1, sgz:"z"}).close()));
    show("EnInf::UnitV", RootEntry::new(EnInf::UnitV.close()));
    show("RootE", RootEntry::new(RootE{ e1: EnInf::Tv(Small{zed:1, sgz:"z"}), e2: EnInf::Rn, e3: EnEx2::Tv(Small{zed:1, sgz:"z"}), e4: EnEx2::UnitV }.close()));
}
